"""Translator: the constructors of grid/onedgrid.py and `OneDGrid.__init__` (grid/basegrid.py), statement by
statement -> Gen/OneDCtor.lean (AST-based, no import of the modules).

For each of the 26 classes one definition `<Class>.ctor … : Except Err (PyGrid K)`:

* `if <test>: raise X(...)`          -> `if <test> then .error .<x> else …`  (tests on `npoints` / `d` in `Int`, on the
                                        float parameter in `K`; `np.any(np.isnan(w))`; `not issubclass(q, OneDGrid)`)
* `warnings.warn(msg, stacklevel=s)` -> `pyWarn s <| …`
* `points, weights = <NumPy/SciPy Gauss routine>(npoints[, alpha])` -> the named primitive `ext.<routine> npoints.toNat [alpha]`
* element-wise array statements of the Gauss wrappers and of the Trefethen classes (`weights *= …`, `points = _g2(grid.points)`,
  `weights = _derg2(grid.points) * grid.weights`, …) -> `List.map` / `List.zipWith` of the element-wise expression
* `grid = <Class>(npoints)` / `grid = quadrature(npoints)` -> `(<Class>.ctor npoints).bind fun grid => …`
* the `if d == 1: … elif d == 5: … else: raise` chain -> an `if` chain producing the pair `(points, weights)` or the error
* `if <test>: weights *= …` (conditional update of an array, no else) -> `let weights := if <test> then … else weights`
* for the classes whose arrays are carried entry by entry (`Gen/OneDFormulas.lean`: six closed-form rules, Clenshaw-Curtis,
  Fejer 1/2) or as node / weight functions of the index value (seven substitution rules) the array statements are owned by
  `onedgrid.py` (which raises on anything it cannot carry); here the lists are assembled from those entries
* `super().__init__(points, weights, (lo, hi))` -> `OneDGrid.init points weights (some ⟨lo, hi⟩)`, `[::-1]` -> `.reverse`
* default values of the extra parameters -> `<Class>.<param>Default`

and `OneDGrid.init` = `OneDGrid.__init__`: the `ndim` guard, the `domain is not None` block (length / order guard,
`np.min` / `np.max`, the two comparisons with their `1e-7` slack and their direction), `super().__init__`, `_domain`.
`_dergstrip`'s masked assembly (`gp[mask_true] = …; gp[mask_false] = …`) -> `dergstripAt rho s`.

The named primitives are in `Model/OneDPy.lean`.  Anything outside these shapes raises `Untranslatable`."""
import ast

from ..common import SRC
from . import onedgrid as og
from .util import HEADER, write_if_changed

Untranslatable = og.Untranslatable
U = ast.unparse

EXTERNAL = {  # dotted name of the routine -> field of `Ext`
    "np.polynomial.legendre.leggauss": "leggauss",
    "np.polynomial.chebyshev.chebgauss": "chebgauss",
    "roots_chebyu": "roots_chebyu",
    "roots_genlaguerre": "roots_genlaguerre",
}
MODFUNCS = {"_g2": ("g2", 1), "_derg2": ("derg2", 1), "_g3": ("g3", 1), "_derg3": ("derg3", 1),
            "_gstrip": ("gstrip", 2), "_dergstrip": ("dergstripAt", 2)}
EXC = {"ValueError": "valueError", "TypeError": "typeError", "RuntimeError": "runtimeError"}
REL = {ast.LtE: "≤", ast.Lt: "<", ast.Eq: "=", ast.Gt: ">", ast.GtE: "≥", ast.NotEq: "≠"}
ENTRYWISE = og.CLOSED + og.SERIES


def _comment(st):
    t = U(st).split("\n")
    s = t[0] + (" …" if len(t) > 1 and not isinstance(st, ast.If) else "")
    if isinstance(st, ast.If) and len(t) > 1:
        s = " ".join(x.strip() for x in t)
    return "  -- " + s.replace("/-", "/ -").replace("-/", "- /")[:400]


def _exc(st):
    """the exception class of `if …: raise X(...)`"""
    r = st.body[0]
    name = r.exc.func.id if isinstance(r.exc, ast.Call) and isinstance(r.exc.func, ast.Name) else None
    if len(st.body) != 1 or name not in EXC:
        raise Untranslatable(f"guard raising {name} (line {st.lineno})")
    return EXC[name]


class EExpr(og.KExpr):
    """element-wise expression: array atoms (names / `grid.points`) become bound variables"""

    def __init__(self, src, env, atoms):
        super().__init__(src, env)
        self.atoms = atoms

    def tr(self, e):
        key = ast.dump(e)
        if key in self.atoms:
            return self.atoms[key]
        if isinstance(e, ast.Call) and isinstance(e.func, ast.Name) and e.func.id in MODFUNCS and not e.keywords:
            lean, arity = MODFUNCS[e.func.id]
            if len(e.args) != arity:
                raise Untranslatable(f"{e.func.id} with {len(e.args)} arguments (line {e.lineno})")
            return f"({lean} {' '.join(self.tr(a) for a in e.args)})"
        pw = None
        if isinstance(e, ast.BinOp) and isinstance(e.op, ast.Pow):
            pw = (e.left, e.right)
        elif isinstance(e, ast.Call) and og.is_np(e.func, "power") and len(e.args) == 2 and not e.keywords:
            pw = tuple(e.args)
        if pw is not None:
            b, x = pw
            if isinstance(x, ast.Constant) and isinstance(x.value, int) and not isinstance(x.value, bool) and x.value >= 0:
                return f"(npow {self.tr(b)} {x.value})"
            return f"(Elem.rpow {self.tr(b)} {self.tr(x)})"
        return super().tr(e)


class Body:
    """translation state of one constructor body"""

    def __init__(self, src, cls, kparams, iparams, qparam, qoptional, needs_ext):
        self.src, self.cls = src, cls
        self.kparams, self.iparams = set(kparams), set(iparams)   # float-valued / integer-valued scalar names
        self.qparam, self.qoptional = qparam, qoptional
        self.arrays = {}      # array name -> Lean list term
        self.grids = set()    # names bound to constructed grids
        self.needs_ext = needs_ext
        self.lines = []
        self.fresh = 0

    # -- conditions ------------------------------------------------------------------------------
    def _is_k(self, e):
        return any(isinstance(n, ast.Name) and n.id in self.kparams for n in ast.walk(e))

    def ival(self, e):
        if isinstance(e, ast.Constant) and isinstance(e.value, int) and not isinstance(e.value, bool):
            return f"({e.value} : Int)"
        if isinstance(e, ast.UnaryOp) and isinstance(e.op, ast.USub):
            return f"(-{self.ival(e.operand)})"
        if isinstance(e, ast.Name) and e.id in self.iparams:
            return e.id
        if isinstance(e, ast.BinOp) and type(e.op) in (ast.Mod, ast.Add, ast.Sub, ast.Mult):
            o = {ast.Mod: "%", ast.Add: "+", ast.Sub: "-", ast.Mult: "*"}[type(e.op)]
            return f"({self.ival(e.left)} {o} {self.ival(e.right)})"
        raise Untranslatable(f"{self.cls}: integer expression {U(e)} (line {e.lineno})")

    def kval(self, e):
        return og.KExpr(self.src, {k: k for k in self.kparams}).tr(e)

    def cond(self, t):
        if isinstance(t, ast.BoolOp):
            o = " || " if isinstance(t.op, ast.Or) else " && "
            return "(" + o.join(self.cond(v) for v in t.values) + ")"
        if isinstance(t, ast.UnaryOp) and isinstance(t.op, ast.Not):
            return f"(!{self.cond(t.operand)})"
        if isinstance(t, ast.Compare) and len(t.ops) == 1 and type(t.ops[0]) in REL:
            l, r, rel = t.left, t.comparators[0], REL[type(t.ops[0])]
            if self._is_k(l) or self._is_k(r):
                return f"decide ({self.kval(l)} {rel} {self.kval(r)})"
            return f"decide ({self.ival(l)} {rel} {self.ival(r)})"
        if (og.is_np_call(t, "any") and len(t.args) == 1 and og.is_np_call(t.args[0], "isnan") and len(t.args[0].args) == 1
                and isinstance(t.args[0].args[0], ast.Name) and t.args[0].args[0].id in self.arrays):
            self.needs_ext = True
            return f"({self.arrays[t.args[0].args[0].id]}.any ext.isnan)"
        if (isinstance(t, ast.Call) and isinstance(t.func, ast.Name) and t.func.id == "issubclass" and len(t.args) == 2
                and isinstance(t.args[0], ast.Name) and t.args[0].id == self.qparam and self.qoptional
                and isinstance(t.args[1], ast.Name) and t.args[1].id == "OneDGrid"):
            return f"(isOneDGridClass {self.qparam})"
        raise Untranslatable(f"{self.cls}: condition {U(t)} (line {t.lineno})")

    # -- element-wise array expressions ------------------------------------------------------------
    def _atom_term(self, e):
        if isinstance(e, ast.Name) and e.id in self.arrays:
            return self.arrays[e.id]
        if (isinstance(e, ast.Attribute) and isinstance(e.value, ast.Name) and e.value.id in self.grids
                and e.attr in ("points", "weights")):
            return f"{e.value.id}.{e.attr}"
        return None

    def listexpr(self, e):
        """NumPy element-wise expression over 1-D arrays -> Lean list term"""
        t = self._atom_term(e)
        if t is not None:
            return t
        if isinstance(e, ast.Subscript):
            t, sl = self._atom_term(e.value), e.slice
            if (t is not None and isinstance(sl, ast.Slice) and sl.lower is None and sl.upper is None
                    and isinstance(sl.step, ast.UnaryOp) and isinstance(sl.step.op, ast.USub)
                    and isinstance(sl.step.operand, ast.Constant) and sl.step.operand.value == 1):
                return f"{t}.reverse"
            raise Untranslatable(f"{self.cls}: subscript {U(e)} (line {e.lineno})")
        atoms, order = {}, []

        def collect(n):
            t = self._atom_term(n)
            if t is not None:
                k = ast.dump(n)
                if k not in atoms:
                    atoms[k] = f"{t.replace('.', '_')}_i"
                    order.append((atoms[k], t))
                return
            for ch in ast.iter_child_nodes(n):
                collect(ch)
        collect(e)
        body = EExpr(self.src, {k: k for k in self.kparams}, atoms).tr(e)
        if len(order) == 1:
            return f"({order[0][1]}.map (fun {order[0][0]} => {body}))"
        if len(order) == 2:
            return f"(List.zipWith (fun {order[0][0]} {order[1][0]} => {body}) {order[0][1]} {order[1][1]})"
        raise Untranslatable(f"{self.cls}: element-wise expression over {len(order)} arrays (line {e.lineno})")

    # -- constructor calls -------------------------------------------------------------------------
    def ctor_call(self, v, ext_classes):
        """`<Class>(npoints)` / `quadrature(npoints)` -> Lean term of type Except Err (PyGrid K)"""
        if not (isinstance(v, ast.Call) and isinstance(v.func, ast.Name) and len(v.args) == 1 and not v.keywords
                and isinstance(v.args[0], ast.Name) and v.args[0].id == "npoints"):
            return None
        f = v.func.id
        if f == self.qparam:
            return f"(callClass {f} npoints)" if self.qoptional else f"({f} npoints)"
        if f in ext_classes:
            if ext_classes[f]:
                self.needs_ext = True
            return f"({f}.ctor {'ext ' if ext_classes[f] else ''}npoints)"
        return None

    def domain(self, t):
        if not (isinstance(t, ast.Tuple) and len(t.elts) == 2):
            raise Untranslatable(f"{self.cls}: domain {U(t)}")
        lo = og.KExpr(self.src, {}).tr(t.elts[0])
        hi = "none" if og.is_np(t.elts[1], "inf") else f"(some {og.KExpr(self.src, {}).tr(t.elts[1])})"
        return f"(some ⟨{lo}, {hi}⟩)"


def _dotted(e):
    parts = []
    while isinstance(e, ast.Attribute):
        parts.append(e.attr)
        e = e.value
    if isinstance(e, ast.Name):
        parts.append(e.id)
        return ".".join(reversed(parts))
    return None


def ctor(tree, src, cls, ext_classes):
    """-> dict(cls, params (Lean binder text), needs_ext, lines, defaults=[(name, type, term, py)])"""
    f = og._class_init(tree, cls)
    args = f.args
    if args.vararg or args.kwarg or args.kwonlyargs or args.posonlyargs:
        raise Untranslatable(f"{cls}.__init__ signature")
    names = [a.arg for a in args.args]
    if names[:2] != ["self", "npoints"]:
        raise Untranslatable(f"{cls}.__init__ signature {names}")
    extra = names[2:]
    dflt = dict(zip(reversed(names), reversed(args.defaults)))
    kparams, iparams, qparam = [], ["npoints"], None
    for p in extra:
        if p == "quadrature":
            qparam = p
        elif p == "d":
            iparams.append(p)
        elif p in ("alpha", "delta", "h", "rho"):
            kparams.append(p)
        else:
            raise Untranslatable(f"{cls}.__init__: parameter {p!r}")
    body = [s for s in f.body if not og._is_docstring(s)]
    qoptional = any("issubclass" in ast.dump(s) for s in body if isinstance(s, ast.If))
    B = Body(src, cls, kparams, iparams, qparam, qoptional, False)
    L = B.lines
    defaults = []
    for p in extra:
        if p in dflt:
            d = dflt[p]
            if p in kparams:
                defaults.append((p, "K", og.KExpr(src, {}).tr(d), U(d)))
            elif p in iparams:
                defaults.append((p, "Int", B.ival(d), U(d)))
            else:
                raise Untranslatable(f"{cls}: default of {p}")
    owned = cls in ENTRYWISE or cls in og.SUBST
    have_n = False
    done = False
    for st in body:
        if done:
            raise Untranslatable(f"{cls}: statement after super().__init__ (line {st.lineno})")
        if og._is_guard(st):
            L.append(_comment(st))
            L.append(f"  if {B.cond(st.test)} then Except.error Err.{_exc(st)} else")
            continue
        if og._is_warn(st):
            c = st.value
            kw = {k.arg: k.value for k in c.keywords}
            if (_dotted(c.func) != "warnings.warn" or len(c.args) != 1 or set(kw) != {"stacklevel"}
                    or not isinstance(kw["stacklevel"], ast.Constant) or not isinstance(kw["stacklevel"].value, int)):
                raise Untranslatable(f"{cls}: warn call (line {st.lineno})")
            L.append(_comment(st))
            L.append(f"  pyWarn {kw['stacklevel'].value} <|")
            continue
        if og._is_super_init(st):
            c = st.value
            if not (isinstance(c.func, ast.Attribute) and c.func.attr == "__init__" and U(c.func.value) == "super()"
                    and len(c.args) == 3 and not c.keywords):
                raise Untranslatable(f"{cls}: super().__init__ call (line {st.lineno})")
            L.append(_comment(st))
            if owned:
                if not all(isinstance(a, ast.Name) for a in c.args[:2]):
                    raise Untranslatable(f"{cls}: super().__init__ arguments (line {st.lineno})")
                if not have_n:
                    L.append("  let n := npoints.toNat")
                if cls in ENTRYWISE:
                    og.closed_rule(tree, src, cls)   # raises if the array statements left its vocabulary
                    L.append(f"  let points : List K := (List.range ({cls}.pointsLen n)).map ({cls}.pointAt n)")
                    L.append(f"  let weights : List K := (List.range ({cls}.weightsLen n)).map ({cls}.weightAt n)")
                else:
                    r = og.subst_rule(tree, src, cls)
                    if (c.args[0].id, c.args[1].id) != ("points", "weights") or r["hname"] not in kparams:
                        raise Untranslatable(f"{cls}: super().__init__ arguments (line {st.lineno})")
                    h = r["hname"]
                    L.append(f"  let points : List K := substPoints {cls}.node {cls}.kFirst {cls}.kLen n {h}")
                    L.append(f"  let weights : List K := substWeights {cls}.weight {cls}.kFirst {cls}.kLen n {h}")
                L.append(f"  OneDGrid.init points weights {B.domain(c.args[2])}")
            else:
                L.append(f"  OneDGrid.init {B.listexpr(c.args[0])} {B.listexpr(c.args[1])} {B.domain(c.args[2])}")
            done = True
            continue
        if owned:
            continue   # array statement carried by onedgrid.py (closed_rule / subst_rule), checked at super().__init__
        # --- Gauss wrappers and Trefethen classes: every statement is translated here -------------
        if isinstance(st, ast.Assign) and len(st.targets) == 1 and isinstance(st.targets[0], ast.Tuple):
            tg = st.targets[0].elts
            v = st.value
            fn = _dotted(v.func) if isinstance(v, ast.Call) else None
            if not (len(tg) == 2 and all(isinstance(x, ast.Name) for x in tg) and fn in EXTERNAL and not v.keywords
                    and v.args and isinstance(v.args[0], ast.Name) and v.args[0].id == "npoints"):
                raise Untranslatable(f"{cls}: statement at line {st.lineno}")
            rest = v.args[1:]
            if [U(a) for a in rest] != (["alpha"] if EXTERNAL[fn] == "roots_genlaguerre" else []) or any(U(a) not in kparams for a in rest):
                raise Untranslatable(f"{cls}: arguments of {fn} (line {st.lineno})")
            B.needs_ext = True
            B.fresh += 1
            pw = f"pw{B.fresh}"
            L.append(_comment(st))
            L.append(f"  let {pw} : List K × List K := ext.{EXTERNAL[fn]} npoints.toNat{''.join(' ' + U(a) for a in rest)}")
            for i, x in enumerate(tg):
                L.append(f"  let {x.id} : List K := {pw}.{i + 1}")
                B.arrays[x.id] = x.id
            continue
        if isinstance(st, ast.AugAssign) and isinstance(st.target, ast.Name) and st.target.id in B.arrays:
            if type(st.op) not in (ast.Mult, ast.Div, ast.Add, ast.Sub):
                raise Untranslatable(f"{cls}: augmented operator (line {st.lineno})")
            e = ast.BinOp(left=ast.Name(id=st.target.id, ctx=ast.Load()), op=st.op, right=st.value)
            ast.copy_location(e, st)
            ast.fix_missing_locations(e)
            L.append(_comment(st))
            L.append(f"  let {st.target.id} : List K := {B.listexpr(e)}")
            continue
        name = og._single_target(st)
        if name is not None:
            call = B.ctor_call(st.value, ext_classes)
            if call is not None:
                L.append(_comment(st))
                L.append(f"  {call}.bind fun {name} =>")
                B.grids.add(name)
                continue
            L.append(_comment(st))
            L.append(f"  let {name} : List K := {B.listexpr(st.value)}")
            B.arrays[name] = name
            continue
        if (isinstance(st, ast.If) and not st.orelse and st.body and all(
                (isinstance(b, ast.AugAssign) and isinstance(b.target, ast.Name) and b.target.id in B.arrays)
                or (og._single_target(b) in B.arrays) for b in st.body)):
            # conditional update of arrays:  if <test>: weights *= expr   ->   let weights := if <test> then … else weights
            c = B.cond(st.test)
            L.append(_comment(st))
            for b in st.body:
                if isinstance(b, ast.AugAssign):
                    if type(b.op) not in (ast.Mult, ast.Div, ast.Add, ast.Sub):
                        raise Untranslatable(f"{cls}: augmented operator (line {b.lineno})")
                    e = ast.BinOp(left=ast.Name(id=b.target.id, ctx=ast.Load()), op=b.op, right=b.value)
                    ast.copy_location(e, b)
                    ast.fix_missing_locations(e)
                    nm = b.target.id
                else:
                    e, nm = b.value, og._single_target(b)
                L.append(f"  let {nm} : List K := if {c} then {B.listexpr(e)} else {nm}")
            continue
        if isinstance(st, ast.If):
            # if / elif / else chain: every branch assigns the same array names or raises
            branches, cur = [], st
            while True:
                branches.append((cur.test, cur.body))
                if len(cur.orelse) == 1 and isinstance(cur.orelse[0], ast.If):
                    cur = cur.orelse[0]
                    continue
                last = cur.orelse
                break
            targets = None
            out = []
            for test, blk in branches + [(None, last)]:
                if len(blk) == 1 and isinstance(blk[0], ast.Raise):
                    fake = ast.If(test=ast.Constant(True), body=blk, orelse=[])
                    ast.copy_location(fake, blk[0])
                    val = f"Except.error Err.{_exc(fake)}"
                else:
                    tn = [og._single_target(s) for s in blk]
                    if not blk or None in tn or (targets is not None and tn != targets) or len(tn) != 2:
                        raise Untranslatable(f"{cls}: branch at line {blk[0].lineno if blk else st.lineno}")
                    targets = tn
                    val = "Except.ok (" + ", ".join(B.listexpr(s.value) for s in blk) + ")"
                out.append((test, val))
            if targets is None or out[-1][0] is not None and False:
                raise Untranslatable(f"{cls}: conditional at line {st.lineno}")
            B.fresh += 1
            pw = f"pw{B.fresh}"
            L.append(_comment(st))
            txt = "  ("
            for i, (test, val) in enumerate(out):
                if test is None:
                    txt += f"\n    ({val} : Except Err (List K × List K))"
                else:
                    txt += f"{chr(10) + '    ' if i else ''}if {B.cond(test)} then {val} else"
            if out[-1][0] is not None:
                raise Untranslatable(f"{cls}: conditional without else (line {st.lineno})")
            L.append(txt + f").bind fun {pw} =>")
            for i, x in enumerate(targets):
                L.append(f"  let {x} : List K := {pw}.{i + 1}")
                B.arrays[x] = x
            continue
        raise Untranslatable(f"{cls}: statement at line {st.lineno}")
    if not done:
        raise Untranslatable(f"{cls}: super().__init__ not found")
    binders = []
    if B.needs_ext:
        binders.append("(ext : Ext K)")
    binders.append("(npoints : Int)")
    for p in extra:
        if p == qparam:
            binders.append(f"({p} : {'Option (' if qoptional else '('}Int → Except Err (PyGrid K)))")
        elif p in iparams:
            binders.append(f"({p} : Int)")
        else:
            binders.append(f"({p} : K)")
    return dict(cls=cls, binders=" ".join(binders), needs_ext=B.needs_ext, lines=L, defaults=defaults, extra=extra,
                kparams=kparams, iparams=iparams, qparam=qparam, qoptional=qoptional)


# ----------------------------------------------------------------------------------------------
# OneDGrid.__init__
# ----------------------------------------------------------------------------------------------
class InitExpr:
    """typed expressions of `OneDGrid.__init__`: -> (term, type), type in K / Hi (K or +inf) / Int / None (constant)"""

    def __init__(self, src, knames):
        self.src, self.knames = src, set(knames)

    def tr(self, e):
        if isinstance(e, ast.Constant) and isinstance(e.value, (int, float)) and not isinstance(e.value, bool):
            return e, None
        if isinstance(e, ast.Name) and e.id in self.knames:
            return e.id, "K"
        if (isinstance(e, ast.Subscript) and isinstance(e.value, ast.Name) and e.value.id == "domain"
                and isinstance(e.slice, ast.Constant) and e.slice.value in (0, 1) and not isinstance(e.slice.value, bool)):
            return ("domain.lo", "K") if e.slice.value == 0 else ("domain.hi", "Hi")
        if (isinstance(e, ast.Call) and isinstance(e.func, ast.Name) and e.func.id == "len" and len(e.args) == 1
                and isinstance(e.args[0], ast.Name) and e.args[0].id == "domain"):
            return "(Domain.len domain)", "Int"
        if isinstance(e, ast.Attribute) and e.attr == "ndim" and isinstance(e.value, ast.Name) and e.value.id == "points":
            return "(ndim points)", "Int"
        if isinstance(e, ast.BinOp) and type(e.op) in (ast.Add, ast.Sub):
            (a, ta), (b, tb) = self.tr(e.left), self.tr(e.right)
            o = "+" if isinstance(e.op, ast.Add) else "-"
            if ta == "Hi" and tb in ("K", None):
                return f"({'hiAdd' if o == '+' else 'hiSub'} {a} {self.coerce(b, tb, 'K')})", "Hi"
            if ta in ("K", None) and tb in ("K", None) and (ta or tb):
                return f"({self.coerce(a, ta, 'K')} {o} {self.coerce(b, tb, 'K')})", "K"
            if ta in ("Int", None) and tb in ("Int", None) and (ta or tb):
                return f"({self.coerce(a, ta, 'Int')} {o} {self.coerce(b, tb, 'Int')})", "Int"
        raise Untranslatable(f"OneDGrid.__init__: expression {U(e)} (line {e.lineno})")

    def coerce(self, t, ty, want):
        if ty is None:
            if want == "Int":
                if not isinstance(t.value, int):
                    raise Untranslatable("float constant in an integer comparison")
                return f"({t.value} : Int)"
            return og.const_k(t, self.src)
        if ty != want:
            raise Untranslatable(f"OneDGrid.__init__: {ty} where {want} is expected")
        return t

    def cond(self, t):
        if isinstance(t, ast.BoolOp):
            o = " || " if isinstance(t.op, ast.Or) else " && "
            return "(" + o.join(self.cond(v) for v in t.values) + ")"
        if isinstance(t, ast.Compare) and len(t.ops) == 1 and type(t.ops[0]) in REL:
            (a, ta), (b, tb) = self.tr(t.left), self.tr(t.comparators[0])
            op = type(t.ops[0])
            if ta == "Hi" and tb in ("K", None):
                fn = {ast.Lt: "hiLt", ast.LtE: "hiLe", ast.Gt: "hiGt", ast.GtE: "hiGe"}.get(op)
                if fn:
                    return f"({fn} {a} {self.coerce(b, tb, 'K')})"
            elif tb == "Hi" and ta in ("K", None):
                fn = {ast.Lt: "ltHi", ast.LtE: "leHi", ast.Gt: "gtHi", ast.GtE: "geHi"}.get(op)
                if fn:
                    return f"({fn} {self.coerce(a, ta, 'K')} {b})"
            elif "Int" in (ta, tb) and ta in ("Int", None) and tb in ("Int", None):
                return f"decide ({self.coerce(a, ta, 'Int')} {REL[op]} {self.coerce(b, tb, 'Int')})"
            elif "K" in (ta, tb) and ta in ("K", None) and tb in ("K", None):
                return f"decide ({self.coerce(a, ta, 'K')} {REL[op]} {self.coerce(b, tb, 'K')})"
        raise Untranslatable(f"OneDGrid.__init__: condition {U(t)} (line {t.lineno})")


def onedgrid_init(path=None):
    path = path or (SRC / "basegrid.py")
    src = path.read_text()
    tree = ast.parse(src)
    f = og._class_init(tree, "OneDGrid")
    names = [a.arg for a in f.args.args]
    if names != ["self", "points", "weights", "domain"] or len(f.args.defaults) != 1 or U(f.args.defaults[0]) != "None":
        raise Untranslatable(f"OneDGrid.__init__ signature {names}")
    body = [s for s in f.body if not og._is_docstring(s)]
    L = []

    def block(stmts, knames, indent):
        pad = " " * indent
        ex = InitExpr(src, knames)
        for st in stmts:
            if og._is_guard(st):
                L.append(pad + _comment(st).lstrip())
                L.append(f"{pad}if {ex.cond(st.test)} then Except.error Err.{_exc(st)} else")
                continue
            name = og._single_target(st)
            if name is not None and isinstance(st.value, ast.Call) and og.is_np(st.value.func) and st.value.func.attr in ("min", "max") \
                    and len(st.value.args) == 1 and not st.value.keywords and U(st.value.args[0]) == "points":
                L.append(pad + _comment(st).lstrip())
                L.append(f"{pad}({'npMin' if st.value.func.attr == 'min' else 'npMax'} points).bind fun {name} =>")
                knames = knames | {name}
                ex = InitExpr(src, knames)
                continue
            raise Untranslatable(f"OneDGrid.__init__: statement at line {st.lineno}")

    state = 0
    for st in body:
        if state == 0 and og._is_guard(st):
            L.append(_comment(st))
            L.append(f"  if {InitExpr(src, set()).cond(st.test)} then Except.error Err.{_exc(st)} else")
            continue
        if (state == 0 and isinstance(st, ast.If) and not st.orelse and isinstance(st.test, ast.Compare) and len(st.test.ops) == 1
                and isinstance(st.test.ops[0], ast.IsNot) and U(st.test.left) == "domain" and U(st.test.comparators[0]) == "None"):
            L.append("  -- if domain is not None:")
            L.append("  (match domain with")
            L.append("   | none => (Except.ok () : Except Err Unit)")
            L.append("   | some domain =>")
            block(st.body, set(), 4)
            L.append("    Except.ok ()).bind fun _ =>")
            state = 1
            continue
        if state in (0, 1) and og._is_super_init(st) and U(st.value) == "super().__init__(points, weights)":
            L.append(_comment(st))
            L.append("  (gridInit points weights).bind fun self =>")
            state = 2
            continue
        if state == 2 and isinstance(st, ast.Assign) and U(st) == "self._domain = domain":
            L.append(_comment(st))
            L.append("  Except.ok (self.setDomain domain)")
            state = 3
            continue
        raise Untranslatable(f"OneDGrid.__init__: statement at line {st.lineno}")
    if state != 3:
        raise Untranslatable("OneDGrid.__init__: incomplete")
    return L


def class_order(tree):
    out = []
    for node in tree.body:
        if isinstance(node, ast.ClassDef) and any(isinstance(b, ast.Name) and b.id == "OneDGrid" for b in node.bases):
            out.append(node.name)
    return out


def translate():
    path = SRC / "onedgrid.py"
    src = path.read_text()
    tree = ast.parse(src)
    P = [HEADER.format(name="onedctor", source="src/grid/onedgrid.py (all constructors), src/grid/basegrid.py (OneDGrid.__init__)")]
    P.append("import GridVerif.Model.OneDPy\n\nset_option linter.unusedVariables false\n")
    P.append("namespace GridVerif.Gen.OneD\nopen GridVerif GridVerif.OneD GridVerif.OneD.Py\n")
    P.append("section\nvariable {K : Type} [Add K] [Sub K] [Mul K] [Div K] [Neg K] [NatCast K] [Elem K]\n"
             "  [LT K] [DecidableLT K] [LE K] [DecidableLE K]\n")
    P.append("/-- `OneDGrid.__init__(self, points, weights, domain=None)` (src/grid/basegrid.py). -/")
    P.append("def OneDGrid.init (points weights : List K) (domain : Option (Domain K)) : Except Err (PyGrid K) :=")
    P += onedgrid_init()
    P.append("")
    og.dergstrip_func(tree, src)   # validates: zeros, isclose mask, its complement, both masked assignments, return
    P.append("/-- `_dergstrip(rho, s)` at one entry: `gp[mask_true] = …`, `gp[mask_false] = …` with `mask_false = mask_true == 0`. -/")
    P.append("def dergstripAt (rho s : K) : K :=\n  if dergstripMask s then dergstripEnd rho s else dergstripInterior rho s\n")
    classes = class_order(tree)
    if sorted(classes) != sorted(ENTRYWISE + og.SUBST + ["GaussLaguerre", "GaussLegendre", "GaussChebyshev", "GaussChebyshevType2",
                                                         "TrefethenCC", "TrefethenGC2", "TrefethenGeneral", "TrefethenStripCC",
                                                         "TrefethenStripGC2", "TrefethenStripGeneral"]):
        raise Untranslatable(f"set of OneDGrid subclasses changed: {classes}")
    ext_classes = {}
    info = {}
    for cls in classes:
        r = ctor(tree, src, cls, ext_classes)
        ext_classes[cls] = r["needs_ext"]
        info[cls] = r
        for p, ty, term, py in r["defaults"]:
            if cls in og.SUBST:
                continue   # `<Class>.hDefault` of Gen/OneDFormulas.lean
            P.append(f"/-- `{cls}`: default of `{p}` (`{py}`). -/")
            P.append(f"def {cls}.{p}Default : {ty} := {term}\n")
        sig = ", ".join(["npoints"] + r["extra"])
        P.append(f"/-- `{cls}.__init__(self, {sig})`. -/")
        P.append(f"def {cls}.ctor {r['binders']} : Except Err (PyGrid K) :=")
        P += r["lines"]
        P.append("")
    P.append("end\n\nend GridVerif.Gen.OneD\n")
    return "\n".join(P), info


def lean_text():
    return translate()[0]


def generate():
    return write_if_changed("OneDCtor.lean", lean_text())


def python_side():
    """per class: the default values of the extra parameters as Python source text (self-check of the generated defaults)"""
    return {c: [(p, ty, py) for p, ty, _, py in r["defaults"]] for c, r in translate()[1].items()}

"""Translator for property C04 (round 3): `OneDGrid.__init__` (basegrid.py), statement by statement
-> lean/GridVerif/Gen/OneDGridInit.lean.

`BaseTransform.transform_1d_grid` ends in `OneDGrid(new_points, new_weights, new_domain)`; the domain clause
of C04 ("the new domain … contains every new node") is decided by this constructor and its two `1e-7`
comparisons.  What is carried over (anything else raises `Untranslatable`, which the check treats like a
broken proof obligation):

* the signature `(self, points, weights, domain=None)`;
* `if <test>: raise ValueError(...)` with `<test>` built from `or` / `and` / `not` and comparisons of
  - natural-number expressions: `points.ndim`, `len(domain)`, integer literals (`==`, `!=`, `<`, `<=`, `>`, `>=`),
  - real-number expressions: `domain[0]`, `domain[1]`, earlier locals, integer and decimal literals
    (a decimal literal `1e-7` is the exact fraction `1/10000000`), `+ - * /`, unary minus (`<`, `<=`, `>`, `>=`);
* `if domain is not None: <statements>` -> `match domain with | none => … | some (d0, d1) => …`;
* `<name> = np.min(points)` / `np.max(points)` -> `npMin` / `npMax` (`ValueError` on an empty array, a NaN
  propagates: `Model/Transform1DBase.lean`);
* `super().__init__(a, b)` -> `gridInit a b` (`Grid.__init__`: the length check, `Model/OneDGridBase.lean`);
  the arrays stored in the object are these two arguments, in this order;
* `self._domain = <name>`: what the `domain` property returns.

The text of the error messages (f-strings) is not carried: it has no behaviour.
"""
import ast
from fractions import Fraction

from ..common import SRC
from .util import HEADER, write_if_changed


class Untranslatable(Exception):
    pass


def _src(node):
    return ast.unparse(node)


def _is_name(n, name):
    return isinstance(n, ast.Name) and n.id == name


def _np_call(node, names):
    return (isinstance(node, ast.Call) and isinstance(node.func, ast.Attribute) and _is_name(node.func.value, "np")
            and node.func.attr in names and len(node.args) == 1 and not node.keywords)


ARRAYS = {"points": "pts", "weights": "wts"}


class Body:
    def __init__(self, source, fn):
        self.source = source
        self.fn = fn
        self.stored = None       # (points text, weights text) handed to Grid.__init__
        self.domain_attr = None  # lean text of what self._domain is set to
        self.tokens = []         # (kind, text) of the carried literals / operators, for the docstring

    # ---- expressions -------------------------------------------------------------------------------------------
    def num(self, n, env, in_dom):
        """-> (lean text, type) with type in {"Nat", "K", "int"} ("int": an integer literal, usable as either)"""
        if isinstance(n, ast.Attribute) and _is_name(n.value, "points") and n.attr == "ndim":
            return "ndim", "Nat"
        if isinstance(n, ast.Call) and _is_name(n.func, "len") and len(n.args) == 1 and not n.keywords and _is_name(n.args[0], "domain"):
            if not in_dom:
                raise Untranslatable(f"len(domain) outside `if domain is not None`: line {n.lineno}")
            return "pairLen", "Nat"
        if isinstance(n, ast.Subscript) and _is_name(n.value, "domain") and isinstance(n.slice, ast.Constant) \
                and n.slice.value in (0, 1) and not isinstance(n.slice.value, bool):
            if not in_dom:
                raise Untranslatable(f"domain[{n.slice.value}] outside `if domain is not None`: line {n.lineno}")
            return f"d{n.slice.value}", "K"
        if isinstance(n, ast.Name) and n.id in env:
            return env[n.id], "K"
        if isinstance(n, ast.Constant) and isinstance(n.value, int) and not isinstance(n.value, bool) and n.value >= 0:
            return str(n.value), "int"
        if isinstance(n, ast.Constant) and isinstance(n.value, float):
            txt = ast.get_source_segment(self.source, n)
            try:
                q = Fraction(txt)
            except (ValueError, TypeError):
                raise Untranslatable(f"decimal literal {txt!r}") from None
            if q < 0 or q.numerator >= 2 ** 53 or q.denominator >= 2 ** 53:
                raise Untranslatable(f"decimal literal {txt!r}: numerator / denominator not exact in double precision")
            if q.denominator == 1:
                return f"(({q.numerator} : Nat) : K)", "K"
            return f"((({q.numerator} : Nat) : K) / (({q.denominator} : Nat) : K))", "K"
        if isinstance(n, ast.UnaryOp) and isinstance(n.op, ast.USub):
            t, ty = self.num(n.operand, env, in_dom)
            return f"(-{self.asK(t, ty)})", "K"
        if isinstance(n, ast.BinOp):
            ops = {ast.Add: "+", ast.Sub: "-", ast.Mult: "*", ast.Div: "/"}
            if type(n.op) not in ops:
                raise Untranslatable(f"operator not supported: {_src(n)}")
            (a, ta), (b, tb) = self.num(n.left, env, in_dom), self.num(n.right, env, in_dom)
            if "Nat" in (ta, tb) or (ta == "int" and tb == "int"):
                raise Untranslatable(f"arithmetic on counts not supported: {_src(n)}")
            return f"({self.asK(a, ta)} {ops[type(n.op)]} {self.asK(b, tb)})", "K"
        raise Untranslatable(f"expression not supported: {_src(n)} (line {getattr(n, 'lineno', '?')})")

    @staticmethod
    def asK(t, ty):
        if ty == "K":
            return t
        if ty == "int":
            return f"(({t} : Nat) : K)"
        raise Untranslatable(f"a count ({t}) used as a real number")

    def test(self, n, env, in_dom):
        if isinstance(n, ast.BoolOp):
            op = " ∨ " if isinstance(n.op, ast.Or) else " ∧ "
            return "(" + op.join(self.test(v, env, in_dom) for v in n.values) + ")"
        if isinstance(n, ast.UnaryOp) and isinstance(n.op, ast.Not):
            return f"(¬ {self.test(n.operand, env, in_dom)})"
        if isinstance(n, ast.Compare) and len(n.ops) == 1:
            (a, ta), (b, tb) = self.num(n.left, env, in_dom), self.num(n.comparators[0], env, in_dom)
            op = type(n.ops[0])
            if ta in ("Nat", "int") and tb in ("Nat", "int") and "Nat" in (ta, tb):
                sym = {ast.Eq: "=", ast.NotEq: "≠", ast.Lt: "<", ast.LtE: "≤", ast.Gt: ">", ast.GtE: "≥"}.get(op)
                if sym is None:
                    raise Untranslatable(f"comparison not supported: {_src(n)}")
                return f"({a} {sym} {b})"
            if "Nat" in (ta, tb):
                raise Untranslatable(f"comparison of a count with a real number: {_src(n)}")
            sym = {ast.Lt: "<", ast.LtE: "≤", ast.Gt: ">", ast.GtE: "≥"}.get(op)
            if sym is None or (ta == "int" and tb == "int"):
                raise Untranslatable(f"comparison not supported on real numbers: {_src(n)}")
            return f"({self.asK(a, ta)} {sym} {self.asK(b, tb)})"
        raise Untranslatable(f"test not supported: {_src(n)}")

    # ---- statements --------------------------------------------------------------------------------------------
    @staticmethod
    def _raises(body):
        if (len(body) == 1 and isinstance(body[0], ast.Raise) and isinstance(body[0].exc, ast.Call)
                and isinstance(body[0].exc.func, ast.Name)):
            return {"ValueError": ".valueError", "TypeError": ".typeError"}.get(body[0].exc.func.id)
        return None

    def emit(self, stmts, env, in_dom, ind):
        pad = "  " * ind
        if not stmts:
            if self.stored is None:
                raise Untranslatable("OneDGrid.__init__: super().__init__(points, weights) is not called on every path")
            if self.domain_attr is None:
                raise Untranslatable("OneDGrid.__init__: self._domain is not set on every path")
            return f"{pad}.ok {{ pts := {self.stored[0]}, wts := {self.stored[1]}, domain := {self.domain_attr} }}"
        st, rest = stmts[0], stmts[1:]
        if isinstance(st, ast.If) and not st.orelse and self._raises(st.body):
            return (f"{pad}-- {_src(st.test)!s}: raise {st.body[0].exc.func.id}\n"
                    f"{pad}if {self.test(st.test, env, in_dom)} then .error {self._raises(st.body)} else\n"
                    + self.emit(rest, env, in_dom, ind))
        if (isinstance(st, ast.If) and not st.orelse and isinstance(st.test, ast.Compare) and _is_name(st.test.left, "domain")
                and len(st.test.ops) == 1 and isinstance(st.test.ops[0], ast.IsNot)
                and isinstance(st.test.comparators[0], ast.Constant) and st.test.comparators[0].value is None):
            if in_dom:
                raise Untranslatable("nested `if domain is not None`")
            saved = (self.stored, self.domain_attr)
            none_branch = self.emit(rest, dict(env), False, ind + 1)
            self.stored, self.domain_attr = saved
            some_branch = self.emit(list(st.body) + rest, dict(env), True, ind + 1)
            return (f"{pad}-- if domain is not None:\n{pad}match domain with\n{pad}| none =>\n{none_branch}\n"
                    f"{pad}| some (d0, d1) =>\n{some_branch}")
        if isinstance(st, ast.Assign) and len(st.targets) == 1 and isinstance(st.targets[0], ast.Name) and _np_call(st.value, ("min", "max")):
            arg = st.value.args[0]
            if not (isinstance(arg, ast.Name) and arg.id in ARRAYS):
                raise Untranslatable(f"np.{st.value.func.attr} of something else than points / weights: {_src(st)}")
            name = st.targets[0].id
            if name in ("domain", "points", "weights", "ndim", "d0", "d1", "pts", "wts"):
                raise Untranslatable(f"local name {name} shadows an argument")
            prim = "npMin" if st.value.func.attr == "min" else "npMax"
            env2 = dict(env)
            env2[name] = name
            return (f"{pad}-- {_src(st)}\n{pad}match {prim} {ARRAYS[arg.id]} with\n{pad}| none => .error .valueError\n"
                    f"{pad}| some {name} =>\n" + self.emit(rest, env2, in_dom, ind))
        if (isinstance(st, ast.Expr) and isinstance(st.value, ast.Call) and isinstance(st.value.func, ast.Attribute)
                and st.value.func.attr == "__init__" and isinstance(st.value.func.value, ast.Call)
                and _is_name(st.value.func.value.func, "super") and not st.value.func.value.args and not st.value.keywords):
            args = st.value.args
            if len(args) != 2 or not all(isinstance(a, ast.Name) and a.id in ARRAYS for a in args):
                raise Untranslatable(f"super().__init__ arguments: {_src(st)}")
            if self.stored is not None:
                raise Untranslatable("second super().__init__ call")
            self.stored = (ARRAYS[args[0].id], ARRAYS[args[1].id])
            return (f"{pad}-- {_src(st)}\n{pad}match gridInit {self.stored[0]} {self.stored[1]} with\n{pad}| .error e => .error e\n"
                    f"{pad}| .ok _ =>\n" + self.emit(rest, env, in_dom, ind))
        if (isinstance(st, ast.Assign) and len(st.targets) == 1 and isinstance(st.targets[0], ast.Attribute)
                and _is_name(st.targets[0].value, "self") and st.targets[0].attr == "_domain"):
            if not _is_name(st.value, "domain"):
                raise Untranslatable(f"self._domain set to something else than the argument: {_src(st)}")
            self.domain_attr = "domain"
            return f"{pad}-- {_src(st)}\n" + self.emit(rest, env, in_dom, ind)
        raise Untranslatable(f"statement not supported: {_src(st)[:200]}")


def _find(tree, cls, meth):
    c = next((n for n in tree.body if isinstance(n, ast.ClassDef) and n.name == cls), None)
    if c is None:
        raise Untranslatable(f"class {cls} not found")
    f = next((n for n in c.body if isinstance(n, ast.FunctionDef) and n.name == meth), None)
    return c, f


def lean_text():
    source = (SRC / "basegrid.py").read_text()
    tree = ast.parse(source)
    cls, fn = _find(tree, "OneDGrid", "__init__")
    if fn is None:
        raise Untranslatable("OneDGrid.__init__ not found")
    if [b.id for b in cls.bases if isinstance(b, ast.Name)] != ["Grid"]:
        raise Untranslatable("OneDGrid is no longer a direct subclass of Grid")
    a = fn.args
    if ([x.arg for x in a.args] != ["self", "points", "weights", "domain"] or a.vararg or a.kwarg or a.kwonlyargs
            or len(a.defaults) != 1 or not (isinstance(a.defaults[0], ast.Constant) and a.defaults[0].value is None)):
        raise Untranslatable("signature of OneDGrid.__init__ changed")
    # the `domain` property must return what __init__ stored
    _, prop = _find(tree, "OneDGrid", "domain")
    if prop is None or not (len([s for s in prop.body if not (isinstance(s, ast.Expr) and isinstance(s.value, ast.Constant))]) == 1
                            and isinstance(prop.body[-1], ast.Return) and _src(prop.body[-1].value) == "self._domain"):
        raise Untranslatable("OneDGrid.domain is not `return self._domain`")
    body = list(fn.body)
    if body and isinstance(body[0], ast.Expr) and isinstance(body[0].value, ast.Constant):
        body = body[1:]
    b = Body(source, fn)
    text = b.emit(body, {}, False, 1)
    L = [HEADER.format(name="onedgrid_init", source="src/grid/basegrid.py (OneDGrid.__init__)")]
    L.append("import GridVerif.Model.OneDGridBase\n")
    L.append("set_option linter.unusedVariables false\n")
    L.append("namespace GridVerif.Gen.OneDGridInit")
    L.append("open GridVerif GridVerif.Transform1D\n")
    L.append("variable {K : Type} [Add K] [Sub K] [Mul K] [Div K] [Neg K] [NatCast K] [LT K] [LE K] [DecidableLT K] [DecidableLE K]\n")
    L.append("/-- `def __init__(self, points, weights, domain=None)`: the default of `domain`. -/")
    L.append("def domainDefaultNone : Bool := true\n")
    L.append("/-- `OneDGrid.__init__(points, weights, domain)`, statement by statement; `ndim` = `points.ndim`,\n"
             "`pts` / `wts` = the entries of `points` / `weights`, `domain` = `None` or the pair `(domain[0], domain[1])`. -/")
    L.append("def init (ndim : Nat) (pts wts : List K) (domain : Option (K × K)) : Except Err (Grid1D K) :=")
    L.append(text + "\n")
    L.append("end GridVerif.Gen.OneDGridInit")
    return "\n".join(L) + "\n"


def generate():
    return write_if_changed("OneDGridInit.lean", lean_text())


if __name__ == "__main__":
    print(generate())

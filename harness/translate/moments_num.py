"""Translator: the *numeric* statements of the multipole moments -> Gen/MomentsNum.lean.

Round 3 companion of `moments.py` (which carries the order / index bookkeeping).  AST based, typed,
statement by statement, generic in the carrier `K` of `Model/Elem.lean`:

1. `basegrid.Grid.moments`, the loop over the centres and the two `return` statements
   -> `momentsCentre` (the body of `for center in centers:`; every `if/elif` chain becomes an
   expression that yields the variable which is read after it, `none` when no branch assigned it),
   `momentsLoop` (`integrals = []`, the loop, `np.array(integrals).T`, `return_orders`) and
   `gridMoments` (the statements before the loop — `momentsOrders` of Gen/Moments.lean, which sees
   the arrays through their shapes — followed by `momentsLoop`); the defaults of the signature
   -> `gridMomentsDefaultTypeMom`, `gridMomentsDefaultReturnOrders`.
   `convert_cart_to_sph` and `solid_harmonics` (property C08) are parameters.
2. `basegrid.Grid.integrate` -> `gridIntegrate`.
3. `utils.isotopic_masses` -> `isotopicMassesTable` (exact decimals: numerator, power of ten — read
   from the *text* of each literal) and `isotopic_masses`.
4. `utils.dipole_moment_of_molecule` -> `dipoleMomentOfMolecule` (`grid.moments` is a parameter,
   called with the keyword arguments resolved against the signature of `Grid.moments`).
5. `ngrid.MultiDomainGrid.moments` (signature defaults, `raise NotImplementedError`)
   -> `multiDomainGridMoments`, `multiDomainGridMomentsDefaultReturnOrders`.

NumPy calls become the named primitives of `Model/MomentsNum.lean`; an axis, subscript string,
slice or keyword other than the ones handled raises `Untranslatable` (reported by the check as an
obligation that no longer holds).
"""
import ast
import re

from ..common import SRC
from .moments import Fn, Untranslatable, _args, _fail, _function
from .util import HEADER, write_if_changed

LT = {"int": "Int", "str": "String", "bool": "Bool", "ilist": "List Int", "arr": "IntArr", "mask": "List Bool",
      "fvec": "List K", "fmat": "List (List K)", "ften3": "List (List (List K))", "fcols": "List (List K)", "K": "K"}
EXC = {"ValueError": "valueError", "TypeError": "typeError", "IndexError": "indexError", "NotImplementedError": "notImplementedError"}
EINSUM = {"ln,n,n->l": ("npEinsumLnNN", ["fmat", "fvec", "fvec"]), "ln,ln,n,n->l": ("npEinsumLnLnNN", ["fmat", "fmat", "fvec", "fvec"]),
          "ij,j->i": ("npEinsumIjJ", ["fmat", "fvec"])}
KVARS = "{K : Type} [Add K] [Sub K] [Mul K] [Div K] [Neg K] [NatCast K] [Elem K]"


def _is_col(sl):
    """`[:, None]`"""
    return (isinstance(sl, ast.Tuple) and len(sl.elts) == 2 and isinstance(sl.elts[0], ast.Slice)
            and sl.elts[0].lower is None and sl.elts[0].upper is None and sl.elts[0].step is None
            and isinstance(sl.elts[1], ast.Constant) and sl.elts[1].value is None)


def _kw(e):
    return {k.arg: k.value for k in e.keywords}


class NumFn(Fn):
    """`Fn` of moments.py (integers, shapes, integer arrays) + float arrays."""

    def __init__(self, env, funcs=None, shapes=(), mfuncs=None):
        super().__init__(env, funcs, shapes)
        self.mfuncs = mfuncs or {}      # python callee -> (lean name, [arg types], result type), monadic
        self.locals, self.loopvars, self.result = {}, set(), "none"
        self.maybe = set()              # python names bound as `Option` (assigned in some branch only)

    def asfvec(self, t, ty, node):
        if ty == "fvec":
            return t
        if ty == "ilist":
            return f"(npAsK {t})"
        _fail(node, f"a float vector is needed, found {ty}")

    def expr(self, e):
        if isinstance(e, ast.Name) and e.id in self.maybe:
            lean, ty = self.env[e.id]
            return f"(← pyBound {lean})", ty
        if isinstance(e, ast.Attribute) and e.attr == "T" and ast.unparse(e) not in self.env:
            v, tv = self.expr(e.value)
            if tv == "fcols":
                return f"(npArrayT {v})", "fmat"
            if tv == "fmat":
                return f"(npT {v})", "fmat"
            _fail(e, f"`.T` of {tv}")
        if isinstance(e, ast.Attribute) and e.attr == "shape" and ast.unparse(e.value) in self.env and self.env[ast.unparse(e.value)][1] == "pyarg":
            return f"(← pyShape {self.env[ast.unparse(e.value)][0]})", "ilist"
        if isinstance(e, ast.Tuple) and e.elts:
            items = [self.expr(x) for x in e.elts]
            if {ty for _, ty in items} == {"int"}:
                return "[" + ", ".join(t for t, _ in items) + "]", "ilist"
            _fail(e, "tuple of non-integers")
        if isinstance(e, ast.List) and len(e.elts) == 1:
            t, ty = self.expr(e.elts[0])
            if ty == "fvec":
                return f"[{t}]", "fcols"
        if isinstance(e, ast.ListComp):
            return self.listcomp(e)
        return super().expr(e)

    def listcomp(self, e):
        if len(e.generators) != 1 or e.generators[0].ifs or e.generators[0].is_async or not isinstance(e.generators[0].target, ast.Name):
            _fail(e, "unsupported comprehension")
        it, ti = self.expr(e.generators[0].iter)
        if ti != "ilist" or "←" in it:
            _fail(e, "comprehension over something other than an integer list")
        v = e.generators[0].target.id
        saved = self.env.get(v)
        self.env[v] = (v, "int")
        body, tb = self.expr(e.elt)
        if saved is None:
            del self.env[v]
        else:
            self.env[v] = saved
        if tb != "K":
            _fail(e, f"comprehension of {tb}")
        m = re.fullmatch(r"\(← (.*)\)", body)
        if not m or "←" in m.group(1):
            _fail(e, "comprehension element is not one look-up")
        return f"(← {it}.mapM (fun {v} => {m.group(1)}))", "flist"

    def binop(self, e):
        op = type(e.op)
        if op is ast.Pow and isinstance(e.right, ast.Subscript) and _is_col(e.right.slice):
            a, ta = self.expr(e.left)
            b, tb = self.expr(e.right.value)
            if (ta, tb) == ("fmat", "arr"):
                return f"(← npPowMatArrCol {a} {b})", "ften3"
            if (ta, tb) == ("fvec", "ilist"):
                return f"(npPowVecCol {a} {b})", "fmat"
            _fail(e, f"unsupported power ({ta} ** {tb}[:, None])")
        if op is ast.Mult and isinstance(e.right, ast.Subscript) and _is_col(e.right.slice):
            a, ta = self.expr(e.left)
            b, tb = self.expr(e.right.value)
            if (ta, tb) == ("fmat", "fvec"):
                return f"(← npMulMatCol {a} {b})", "fmat"
            _fail(e, f"unsupported product ({ta} * {tb}[:, None])")
        a, ta = self.expr(e.left)
        b, tb = self.expr(e.right)
        if op is ast.Sub:
            if (ta, tb) == ("fmat", "fvec"):
                return f"(← npSubRow {a} {b})", "fmat"
            if (ta, tb) == ("fmat", "fmat1"):
                return f"(← npSubMat1 {a} {b})", "fmat"
            if (ta, tb) == ("fvec", "fmat"):
                return f"(← npSubVecMat {a} {b})", "fmat"
        if op is ast.Div and (ta, tb) == ("fvec", "K"):
            return f"(npDivVecS {a} {b})", "fvec"
        if op is ast.Add and ta == tb == "str":
            return f"({a} ++ {b})", "str"
        if op is ast.Mult and (ta, tb) == ("str", "int"):
            return f"(pyStrRepeat {a} {b})", "str"
        if ta in ("int", "ilist") and tb in ("int", "ilist"):
            return super().binop(e)
        _fail(e, f"unsupported arithmetic ({ta} {op.__name__} {tb})")

    def subscript(self, e):
        if isinstance(e.slice, ast.Slice) and e.slice.upper is None and e.slice.step is None and isinstance(e.slice.lower, ast.Constant) \
                and isinstance(e.slice.lower.value, int) and e.slice.lower.value >= 0:
            v, tv = self.expr(e.value)
            if tv == "fvec":
                return f"(pyDropK {v} {e.slice.lower.value})", "fvec"
        if not isinstance(e.slice, (ast.Slice, ast.Tuple)):
            v, tv = self.expr(e.value)
            if tv == "fmat":
                k, tk = self.expr(e.slice)
                if tk == "ilist":
                    return f"(← npTakeRows {v} {k})", "fmat"
                _fail(e, f"unsupported subscript (fmat[{tk}])")
            if tv == "dict":
                k, tk = self.expr(e.slice)
                if tk == "int":
                    return f"(← pyDictGet {v} {k})", "K"
                _fail(e, f"unsupported dictionary key ({tk})")
        return super().subscript(e)

    def call(self, e):
        fn = ast.unparse(e.func)
        kw = _kw(e)
        if fn == "np.prod" and len(e.args) == 1 and set(kw) == {"axis"}:
            a, ta = self.expr(e.args[0])
            if ta == "ften3" and ast.unparse(kw["axis"]) == "2":
                return f"(npProdAxis2 {a})", "fmat"
            _fail(e, "np.prod: only an (L, N, d) array along axis=2")
        if fn == "np.linalg.norm" and len(e.args) == 1 and set(kw) == {"axis"}:
            a, ta = self.expr(e.args[0])
            if ta == "fmat" and ast.unparse(kw["axis"]) == "1":
                return f"(npNormAxis1 {a})", "fvec"
            _fail(e, "np.linalg.norm: only an (N, d) array along axis=1")
        if fn == "np.sum" and len(e.args) == 1:
            a, ta = self.expr(e.args[0])
            if ta == "fmat" and set(kw) == {"axis"} and ast.unparse(kw["axis"]) == "0":
                return f"(npSumAxis0 {a})", "fvec"
            if ta == "fvec" and not kw:
                return f"(npSum {a})", "K"
            _fail(e, "np.sum: only (M, d) along axis=0 or the full sum of a vector")
        if fn == "np.ravel" and len(e.args) == 1 and not kw:
            a, ta = self.expr(e.args[0])
            if ta == "arr":
                return f"(npRavel {a})", "ilist"
        if fn == "np.array" and len(e.args) == 1 and not kw:
            a, ta = self.expr(e.args[0])
            if ta == "flist":
                return a, "fvec"
            if ta == "fcols" and isinstance(e.args[0], ast.List):
                return a, "fmat1"           # np.array([v]): one row
            if ta == "fveclist":
                return a, "fcols"
        if fn == "np.einsum" and e.args and isinstance(e.args[0], ast.Constant) and not kw:
            spec = EINSUM.get(e.args[0].value)
            if spec is None or len(e.args) - 1 != len(spec[1]):
                _fail(e, "unsupported einsum subscripts")
            ops = []
            for a, want in zip(e.args[1:], spec[1]):
                t, ty = self.expr(a)
                if want == "fvec":
                    t = self.asfvec(t, ty, a)
                elif ty != want:
                    _fail(a, f"einsum operand of type {ty}, expected {want}")
                ops.append(t)
            return f"(← {spec[0]} {' '.join(ops)})", "fvec"
        if fn == "np.einsum" and len(e.args) == 3 and isinstance(e.args[2], ast.Starred) and not kw:
            subs, ts = self.expr(e.args[0])
            first, tf = self.expr(e.args[1])
            g = e.args[2].value
            ok = (isinstance(g, ast.GeneratorExp) and len(g.generators) == 1 and not g.generators[0].ifs
                  and isinstance(g.elt, ast.Name) and isinstance(g.generators[0].target, ast.Name)
                  and g.elt.id == g.generators[0].target.id)
            if ok and ts == "str" and tf == "fvec":
                it = ast.unparse(g.generators[0].iter)
                if it in self.env and self.env[it][1] == "pyargs":
                    return f"(← npEinsumAllI {subs} ({first} :: (← {self.env[it][0]}.mapM pyData)))", "K"
            _fail(e, "unsupported einsum call")
        if fn == "len" and len(e.args) == 1 and ast.unparse(e.args[0]) in self.env and self.env[ast.unparse(e.args[0])][1] == "pyargs":
            return f"({self.env[ast.unparse(e.args[0])][0]}.length : Int)", "int"
        if fn == "isinstance" and len(e.args) == 2 and ast.unparse(e.args[1]) == "np.ndarray":
            a = ast.unparse(e.args[0])
            if a in self.env and self.env[a][1] == "pyarg":
                return f"(pyIsNdarray {self.env[a][0]})", "bool"
        if isinstance(e.func, ast.Attribute) and e.func.attr == "flatten" and not e.args and not kw:
            v, tv = self.expr(e.func.value)
            if tv == "fmat":
                return f"(npFlatten {v})", "fvec"
        if fn in self.mfuncs:
            lean, params, rty = self.mfuncs[fn]      # params: [(name, type, default-node | None)]
            bound = {}
            if len(e.args) > len(params):
                _fail(e, "too many positional arguments")
            for (pn, _, _), a in zip(params, e.args):
                bound[pn] = a
            for k, v in kw.items():
                if k in bound or k not in [p[0] for p in params]:
                    _fail(e, f"keyword {k}")
                bound[k] = v
            out = []
            for pn, pty, dflt in params:
                node = bound.get(pn, dflt)
                if node is None:
                    _fail(e, f"argument {pn} missing")
                t, ty = self.expr(node)
                if pty == "int+type":
                    if ty != "int" or not isinstance(node, ast.Constant):
                        _fail(node, "an integer literal is expected")
                    out += [t, '"int"']
                    continue
                if pty == "fmat" and ty == "fmat1":
                    ty = "fmat"
                if ty != pty:
                    _fail(node, f"argument {pn} of type {ty}, expected {pty}")
                out.append(t)
            return f"(← {lean} {' '.join(out)})", rty
        return super().call(e)

    def compare(self, e):
        if len(e.ops) == 1 and isinstance(e.ops[0], (ast.Eq, ast.NotEq)):
            a, ta = self.expr(e.left)
            b, tb = self.expr(e.comparators[0])
            if ta == tb == "ilist":
                return f"({a} {'==' if isinstance(e.ops[0], ast.Eq) else '!='} {b})", "bool"
        if len(e.ops) == 1 and isinstance(e.ops[0], (ast.In, ast.NotIn)) and isinstance(e.comparators[0], ast.Tuple):
            a, ta = self.expr(e.left)
            items = [self.expr(x) for x in e.comparators[0].elts]
            if ta == "str" and {t for _, t in items} == {"str"}:
                t = f"pyIn {a} [" + ", ".join(x for x, _ in items) + "]"
                return (f"({t})" if isinstance(e.ops[0], ast.In) else f"(!({t}))"), "bool"
        return super().compare(e)

    # ---- functional blocks: if/elif chains yield the variable that is read after them --------------
    @staticmethod
    def assigned(stmts):
        out = set()
        for s in stmts:
            for n in ast.walk(s):
                if isinstance(n, ast.Assign):
                    for t in n.targets:
                        for x in (t.elts if isinstance(t, ast.Tuple) else [t]):
                            if isinstance(x, ast.Name):
                                out.add(x.id)
                            elif isinstance(x, ast.Subscript) and isinstance(x.value, ast.Name):
                                out.add(x.value.id)
                elif isinstance(n, ast.AugAssign):
                    x = n.target
                    out.add(x.id if isinstance(x, ast.Name) else x.value.id if isinstance(x, ast.Subscript) and isinstance(x.value, ast.Name) else "?")
        return out

    @staticmethod
    def reads(stmts):
        return {n.id for s in stmts for n in ast.walk(s) if isinstance(n, ast.Name) and isinstance(n.ctx, ast.Load)}

    def raise_stmt(self, s, ind):
        p = " " * ind
        name = s.exc.func.id if isinstance(s.exc, ast.Call) and isinstance(s.exc.func, ast.Name) else None
        if name not in EXC:
            _fail(s, "unsupported raise")
        out = []
        for a in s.exc.args:                    # the message is evaluated before the exception is raised
            for fv in (a.values if isinstance(a, ast.JoinedStr) else []):
                if not isinstance(fv, ast.FormattedValue):
                    continue
                v = fv.value
                if isinstance(v, ast.Call) and ast.unparse(v.func) == "type" and len(v.args) == 1 and isinstance(v.args[0], ast.Name):
                    v = v.args[0]
                t, _ = self.expr(v)
                if "←" in t:
                    out.append(f"{p}let _ := {t}")
        return out + [f"{p}throw Err.{EXC[name]}"]

    def fblock(self, stmts, ind, live):
        """Statements in functional style. -> lines; the environment afterwards holds what was bound."""
        p = " " * ind
        out = []
        for i, s in enumerate(stmts):
            after = self.reads(stmts[i + 1:]) | set(live)
            if isinstance(s, ast.Expr) and isinstance(s.value, ast.Constant) and isinstance(s.value.value, str):
                continue
            if isinstance(s, ast.Raise):
                out += self.raise_stmt(s, ind)
            elif isinstance(s, ast.If):
                out += self.chain(s, ind, after)
            elif isinstance(s, ast.Assign) and len(s.targets) == 1 and isinstance(s.targets[0], ast.Tuple) \
                    and isinstance(s.value, ast.Attribute) and s.value.attr == "T":
                out += Fn.stmt(self, s, ind)
            elif isinstance(s, ast.Assign) and len(s.targets) == 1 and isinstance(s.targets[0], ast.Tuple) and len(s.targets[0].elts) == 2 \
                    and all(isinstance(x, ast.Name) for x in s.targets[0].elts):
                t, ty = self.expr(s.value)
                if ty != "moments-result":
                    _fail(s, "unsupported unpacking")
                a, b = (x.id for x in s.targets[0].elts)
                m = re.fullmatch(r"\(← (.*)\)", t)
                out.append(f"{p}let ({a}, {b}) ← pyUnpackMoments (← {m.group(1)})")
                self.env[a], self.env[b] = (a, "fmat"), (b, "arr")
                self.maybe -= {a, b}
            elif isinstance(s, ast.Assign) and len(s.targets) == 1 and isinstance(s.targets[0], ast.Name):
                name = s.targets[0].id
                t, ty = self.expr(s.value)
                m = re.fullmatch(r"\(← (.*)\)", t)
                if m and "←" not in m.group(1):
                    out.append(f"{p}let {name} ← {m.group(1)}")
                else:
                    out.append(f"{p}let {name} := {t}")
                self.env[name] = (name, ty)
                self.maybe.discard(name)
            elif isinstance(s, ast.AugAssign) and isinstance(s.target, ast.Subscript):
                out += Fn.stmt(self, s, ind)
            elif isinstance(s, ast.Return):
                t, ty = self.expr(s.value)
                if ty != self.result:
                    _fail(s, f"return of type {ty}, expected {self.result}")
                out.append(f"{p}return {t}")
            else:
                _fail(s, "unsupported statement")
        return out

    def chain(self, s, ind, after):
        """`if … elif … else …` -> (a) a statement when nothing assigned inside is read afterwards,
        (b) `let v_opt ← (if … then do …; pure (some v) else …)` for the one variable read afterwards."""
        p = " " * ind
        branches, tail = [], s
        while True:
            branches.append((tail.test, tail.body))
            if len(tail.orelse) == 1 and isinstance(tail.orelse[0], ast.If):
                tail = tail.orelse[0]
            else:
                orelse = tail.orelse
                break
        every = [b for _, b in branches] + ([orelse] if orelse else [])
        live = sorted(set().union(*[self.assigned(b) for b in every]) & after)
        if len(live) > 1:
            _fail(s, f"several variables assigned in a branch are read afterwards: {live}")
        conds = []
        for k, (test, _) in enumerate(branches):
            c = self.cond(test)
            if k > 0 and "←" in c:
                _fail(test, "raising operation in an `elif` condition")
            conds.append(c)
        if not live:
            out = []
            for k, ((_, body), c) in enumerate(zip(branches, conds)):
                saved = (dict(self.env), set(self.maybe))
                lines = self.fblock(body, ind + 2, ())
                self.env, self.maybe = saved[0], saved[1]
                if any(isinstance(x, ast.Return) for b in body for x in ast.walk(b)) and not (k == len(branches) - 1 and not orelse):
                    _fail(s, "return inside a branch that is not the last one")
                out += [f"{p}{'if' if k == 0 else 'else if'} {c} then"] + (lines or [f"{p}  pure ()"])
            if orelse:
                saved = (dict(self.env), set(self.maybe))
                out += [f"{p}else"] + self.fblock(orelse, ind + 2, ())
                self.env, self.maybe = saved[0], saved[1]
            return out
        v = live[0]
        outer = self.env.get(v)
        outer_text = "none" if outer is None else (outer[0] if v in self.maybe else f"(some {outer[0]})")
        parts, vty = [], (outer[1] if outer else None)
        for body in [b for _, b in branches] + [orelse]:
            saved = (dict(self.env), set(self.maybe))
            lines = self.fblock(body, ind + 4, (v,)) if body else []
            got = self.env.get(v)
            if got is None or (got == outer and (v in self.maybe) == (v in saved[1])):
                lines.append(" " * (ind + 4) + f"pure {outer_text}")
            else:
                if vty not in (None, got[1]):
                    _fail(s, f"{v} is assigned values of different types in the branches")
                vty = got[1]
                lines.append(" " * (ind + 4) + (f"pure {got[0]}" if v in self.maybe else f"pure (some {got[0]})"))
            parts.append(lines)
            self.env, self.maybe = saved[0], saved[1]
        if vty is None:
            _fail(s, f"{v} is never assigned")
        out = [f"{p}let {v}_opt : Option ({LT[vty]}) ← ("]
        for k, c in enumerate(conds):
            out += [f"{p}  {'if' if k == 0 else 'else if'} {c} then do"] + parts[k]
        out += [f"{p}  else do"] + parts[-1][:-1] + [parts[-1][-1] + ")"]
        self.env[v] = (f"{v}_opt", vty)
        self.maybe.add(v)
        return out


# ---------------------------------------------------------------------------------------------------
def _moments_parts():
    tree = ast.parse((SRC / "basegrid.py").read_text())
    f = _function(tree, "moments", "Grid")
    if _args(f) != ["self", "orders", "centers", "func_vals", "type_mom", "return_orders"]:
        raise Untranslatable("Grid.moments: unexpected signature")
    stmts = [s for s in f.body if not (isinstance(s, ast.Expr) and isinstance(s.value, ast.Constant))]
    cut = next((i for i, s in enumerate(stmts) if isinstance(s, ast.Assign) and ast.unparse(s.targets[0]) == "integrals"), None)
    if cut is None or cut + 1 >= len(stmts) or not isinstance(stmts[cut + 1], ast.For) or ast.unparse(stmts[cut + 1].iter) != "centers":
        raise Untranslatable("Grid.moments: `integrals = []` followed by the loop over the centres not found")
    return f, stmts, cut


def _default(f, name):
    names = [a.arg for a in f.args.args]
    d = dict(zip(names[len(names) - len(f.args.defaults):], f.args.defaults))
    if name not in d:
        raise Untranslatable(f"{f.name}: parameter {name} has no default")
    return d[name]


CENTRE_PARAMS = ("(convert_cart_to_sph : List (List K) → Except Err (List (List K)))\n"
                 "    (solid_harmonics : Int → List (List K) → Except Err (List (List K)))")


def translate_moments():
    f, stmts, cut = _moments_parts()
    if ast.unparse(stmts[cut].value) != "[]":
        raise Untranslatable("Grid.moments: `integrals = []` expected")
    loop = stmts[cut + 1]
    if loop.orelse or not isinstance(loop.target, ast.Name) or loop.target.id != "center":
        raise Untranslatable("Grid.moments: unexpected loop over the centres")
    body, last = loop.body[:-1], loop.body[-1]
    if ast.unparse(last) != "integrals.append(integral)":
        raise Untranslatable("Grid.moments: the loop over the centres must end with `integrals.append(integral)`")
    if "integrals" in NumFn.reads(body) | NumFn.assigned(body):
        raise Untranslatable("Grid.moments: the loop body uses `integrals` before appending")
    env = {"points": ("points", "fmat"), "center": ("center", "fvec"), "type_mom": ("type_mom", "str"), "all_orders": ("all_orders", "arr"),
           "func_vals": ("func_vals", "fvec"), "self.weights": ("self_weights", "fvec"), "orders": ("orders", "ilist")}
    fn = NumFn(env, mfuncs={"convert_cart_to_sph": ("convert_cart_to_sph", [("points", "fmat", None)], "fmat"),
                            "solid_harmonics": ("solid_harmonics", [("l_max", "int", None), ("sph_pts", "fmat", None)], "fmat")})
    lines = fn.fblock(body, 2, ("integral",))
    if "integral" not in fn.env or fn.env["integral"][1] != "fvec":
        raise Untranslatable("Grid.moments: the loop body does not compute `integral` as a vector")
    ret, _ = fn.expr(ast.Name("integral", ast.Load()))
    out = ["/-- `Grid.moments`, the body of `for center in centers:` up to `integrals.append(integral)`: the value",
           "appended for one centre. `points` is the point array as rows (an `(N,)` array after `reshape(-1, 1)`). -/",
           f"def momentsCentre {KVARS}", "    " + CENTRE_PARAMS,
           "    (points : List (List K)) (self_weights func_vals : List K) (type_mom : String) (orders : List Int)",
           "    (all_orders : IntArr) (center : List K) : Except Err (List K) := do"]
    out += lines + [f"  return {ret}", ""]

    # after the loop: `if return_orders: return np.array(integrals).T, all_orders` / `return np.array(integrals).T`
    rest = stmts[cut + 2:]
    fn2 = NumFn({"integrals": ("integrals", "fveclist"), "all_orders": ("all_orders", "arr"), "return_orders": ("return_orders", "bool")})
    ok = (len(rest) == 2 and isinstance(rest[0], ast.If) and not rest[0].orelse and len(rest[0].body) == 1
          and isinstance(rest[0].body[0], ast.Return) and isinstance(rest[0].body[0].value, ast.Tuple)
          and len(rest[0].body[0].value.elts) == 2 and isinstance(rest[1], ast.Return))
    if not ok:
        raise Untranslatable("Grid.moments: unexpected statements after the loop over the centres")
    c = fn2.cond(rest[0].test)
    a1, t1 = fn2.expr(rest[0].body[0].value.elts[0])
    o1, to1 = fn2.expr(rest[0].body[0].value.elts[1])
    a2, t2 = fn2.expr(rest[1].value)
    if (t1, to1, t2) != ("fmat", "arr", "fmat"):
        raise Untranslatable("Grid.moments: unexpected types of the returned values")
    out += ["/-- `Grid.moments` from `integrals = []` on: the loop over the centres and the returned value",
            "(`none` in the second component: no order list is returned). -/",
            f"def momentsLoop {KVARS}", "    " + CENTRE_PARAMS,
            "    (points : List (List K)) (self_weights : List K) (centers : List (List K)) (func_vals : List K) (type_mom : String)",
            "    (return_orders : Bool) (orders : List Int) (all_orders : IntArr) : Except Err (List (List K) × Option IntArr) := do",
            "  let integrals : List (List K) := []",
            "  let integrals ← centers.foldlM (fun integrals center => do",
            "      let integral ← momentsCentre convert_cart_to_sph solid_harmonics points self_weights func_vals type_mom orders all_orders center",
            "      pure (integrals ++ [integral])) integrals",
            f"  if {c} then", f"    return ({a1}, some {o1})", f"  return ({a2}, none)", ""]
    dt, tt = NumFn({}).expr(_default(f, "type_mom"))
    dr, tr = NumFn({}).expr(_default(f, "return_orders"))
    if (tt, tr) != ("str", "bool"):
        raise Untranslatable("Grid.moments: unexpected defaults")
    out += ["/-- default of the parameter `type_mom` of `Grid.moments`. -/", f"def gridMomentsDefaultTypeMom : String := {dt}", "",
            "/-- default of the parameter `return_orders` of `Grid.moments`. -/", f"def gridMomentsDefaultReturnOrders : Bool := {dr}", "",
            "/-- `Grid.moments(orders, centers, func_vals, type_mom, return_orders)`: the statements before the loop over the",
            "centres (`momentsOrders`, Gen/Moments.lean: the arrays through their shapes) followed by the loop.",
            "`self_points` are the rows of the point array (a one-dimensional point array: one entry per row). -/",
            f"def gridMoments {KVARS}", "    " + CENTRE_PARAMS,
            "    (self_points_shape : List Int) (self_points : List (List K)) (self_weights : List K) (orders : Int) (orders_type : String)",
            "    (centers_shape : List Int) (centers : List (List K)) (func_vals_shape : List Int) (func_vals : List K)",
            "    (type_mom : String) (return_orders : Bool) : Except Err (List (List K) × Option IntArr) := do",
            "  let (_, orders_ilist, all_orders) ← momentsOrders self_points_shape centers_shape func_vals_shape orders orders_type type_mom",
            "  momentsLoop convert_cart_to_sph solid_harmonics self_points self_weights centers func_vals type_mom return_orders orders_ilist all_orders", ""]
    return out


def translate_integrate():
    tree = ast.parse((SRC / "basegrid.py").read_text())
    f = _function(tree, "integrate", "Grid")
    if _args(f) != ["self"] or f.args.vararg is None or f.args.vararg.arg != "value_arrays" or f.args.kwonlyargs or f.args.kwarg:
        raise Untranslatable("Grid.integrate: unexpected signature")
    stmts = [s for s in f.body if not (isinstance(s, ast.Expr) and isinstance(s.value, ast.Constant))]
    fn = NumFn({"value_arrays": ("value_arrays", "pyargs"), "self.size": ("self_size", "int"), "self.weights": ("self_weights", "fvec")})
    fn.result = "K"
    out = ["/-- `Grid.integrate(*value_arrays)`; `self_size` is `self.size`. -/",
           f"def gridIntegrate {KVARS} (self_size : Int) (self_weights : List K) (value_arrays : List (PyArg K)) : Except Err K := do"]
    for s in stmts:
        if isinstance(s, ast.For):
            ok = (not s.orelse and isinstance(s.iter, ast.Call) and ast.unparse(s.iter.func) == "enumerate" and len(s.iter.args) == 1
                  and ast.unparse(s.iter.args[0]) == "value_arrays" and isinstance(s.target, ast.Tuple) and len(s.target.elts) == 2
                  and all(isinstance(x, ast.Name) for x in s.target.elts))
            if not ok or NumFn.assigned(s.body):
                raise Untranslatable("Grid.integrate: unexpected loop")
            i, a = (x.id for x in s.target.elts)
            fn.env[i], fn.env[a] = (i, "int"), (a, "pyarg")
            body = fn.fblock(s.body, 6, ())
            del fn.env[i], fn.env[a]
            out += [f"  (pyEnumerate value_arrays).forM (fun ia => do", f"      let {i} := ia.1", f"      let {a} := ia.2"] + body + ["      pure ())"]
        else:
            out += fn.fblock([s], 2, ())
    return out + [""]


def _masses_table():
    src = (SRC / "utils.py").read_text()
    tree = ast.parse(src)
    node = next((s for s in tree.body if isinstance(s, ast.Assign) and len(s.targets) == 1 and ast.unparse(s.targets[0]) == "isotopic_masses"), None)
    if node is None or not isinstance(node.value, ast.Dict):
        raise Untranslatable("utils.isotopic_masses: dictionary literal not found")
    rows = []
    for k, v in zip(node.value.keys, node.value.values):
        if not (isinstance(k, ast.Constant) and type(k.value) is int and isinstance(v, ast.Constant) and type(v.value) in (float, int)):
            _fail(v, "isotopic_masses: an entry that is not `int: decimal literal`")
        text = ast.get_source_segment(src, v)
        m = re.fullmatch(r"(\d+)(?:\.(\d*))?", text)
        if not m:
            _fail(v, "isotopic_masses: literal is not a plain decimal")
        frac = m.group(2) or ""
        num, den = int(m.group(1) + frac), 10 ** len(frac)
        if float(num) / float(den) != float(v.value):      # translator self-check: the quotient reads back as the literal
            _fail(v, "isotopic_masses: decimal does not round-trip")
        rows.append((k.value, num, den))
    return rows


def translate_masses():
    rows = _masses_table()
    out = ["/-- `utils.isotopic_masses` as written in the source: `(Z, numerator, denominator)` with the mass",
           "`numerator / denominator` (the decimal literal, exactly). -/",
           "def isotopicMassesTable : List (Int × Nat × Nat) := ["]
    out += ["  " + ", ".join(f"({z}, {n}, {d})" for z, n, d in rows[i:i + 4]) + ("," if i + 4 < len(rows) else "") for i in range(0, len(rows), 4)]
    out += ["]", "", "/-- the dictionary `isotopic_masses` over the carrier `K`. -/",
            f"def isotopic_masses {KVARS} : List (Int × K) :=", "  isotopicMassesTable.map fun e => (e.1, decimalK e.2.1 e.2.2)", ""]
    return out


def translate_dipole():
    tree = ast.parse((SRC / "utils.py").read_text())
    f = _function(tree, "dipole_moment_of_molecule")
    if _args(f) != ["grid", "density", "coords", "charges"] or f.args.defaults:
        raise Untranslatable("dipole_moment_of_molecule: unexpected signature")
    fm, _, _ = _moments_parts()
    params = [("orders", "int+type", None), ("centers", "fmat", None), ("func_vals", "fvec", None),
              ("type_mom", "str", _default(fm, "type_mom")), ("return_orders", "bool", _default(fm, "return_orders"))]
    fn = NumFn({"density": ("density", "fvec"), "coords": ("coords", "fmat"), "charges": ("charges", "ilist"),
                "isotopic_masses": ("isotopic_masses", "dict")},
               mfuncs={"grid.moments": ("grid_moments", params, "moments-result")})
    fn.result = "fvec"
    stmts = [s for s in f.body if not (isinstance(s, ast.Expr) and isinstance(s.value, ast.Constant))]
    body = fn.fblock(stmts, 2, ())
    return (["/-- `utils.dipole_moment_of_molecule(grid, density, coords, charges)`; `grid_moments` is the bound method",
             "`grid.moments` (arguments in the order of its signature: orders and the name of its Python type, centers,",
             "func_vals, type_mom, return_orders). -/",
             f"def dipoleMomentOfMolecule {KVARS}",
             "    (grid_moments : Int → String → List (List K) → List K → String → Bool → Except Err (List (List K) × Option IntArr))",
             "    (density : List K) (coords : List (List K)) (charges : List Int) : Except Err (List K) := do"] + body + [""])


def translate_multidomain():
    tree = ast.parse((SRC / "ngrid.py").read_text())
    f = _function(tree, "moments", "MultiDomainGrid")
    if _args(f) != ["self", "orders", "centers", "func_vals", "type_mom", "return_orders"]:
        raise Untranslatable("MultiDomainGrid.moments: unexpected signature")
    stmts = [s for s in f.body if not (isinstance(s, ast.Expr) and isinstance(s.value, ast.Constant))]
    fn = NumFn({})
    body = fn.fblock(stmts, 2, ())
    dt, tt = NumFn({}).expr(_default(f, "type_mom"))
    dr, tr = NumFn({}).expr(_default(f, "return_orders"))
    if (tt, tr) != ("str", "bool"):
        raise Untranslatable("MultiDomainGrid.moments: unexpected defaults")
    return (["/-- defaults of `MultiDomainGrid.moments`. -/", f"def multiDomainGridMomentsDefaultTypeMom : String := {dt}",
             f"def multiDomainGridMomentsDefaultReturnOrders : Bool := {dr}", "",
             "/-- `ngrid.MultiDomainGrid.moments(orders, centers, func_vals, type_mom, return_orders)`. -/",
             "def multiDomainGridMoments (orders : Int) (centers_shape func_vals_shape : List Int) (type_mom : String) (return_orders : Bool) :",
             "    Except Err (List (List Int) × Option IntArr) := do"] + body + [""])


def _origins(f):
    """Where the values a function returns come from (flow-insensitive, syntactic): `call:<callee>` / `method:<name>` (a new
    object made by that call), `literal`, `arith`, `param:<name>` (an argument handed back) or `global:<name>` (a module-level
    or attribute-held object handed out).  Names are resolved through every assignment to them in the function."""
    params = {a.arg for a in f.args.args} | ({f.args.vararg.arg} if f.args.vararg else set())
    assigns = {}
    for n in ast.walk(f):
        if isinstance(n, ast.Assign):
            for t in n.targets:
                for x, v in (zip(t.elts, [n.value] * len(t.elts)) if isinstance(t, ast.Tuple) else [(t, n.value)]):
                    if isinstance(x, ast.Name):
                        assigns.setdefault(x.id, []).append(v)
        elif isinstance(n, (ast.For, ast.comprehension)) and isinstance(n.target, ast.Name):
            assigns.setdefault(n.target.id, []).append(ast.Constant(0))

    def org(e, seen):
        if isinstance(e, ast.Call):
            if isinstance(e.func, ast.Attribute) and not ast.unparse(e.func).startswith(("np.", "grid.")):
                return {"method:" + e.func.attr}
            return {"call:" + ast.unparse(e.func)}
        if isinstance(e, (ast.Attribute, ast.Subscript, ast.Starred)):
            if isinstance(e, ast.Attribute) and isinstance(e.value, ast.Name) and e.value.id == "self":
                return {"global:self." + e.attr}
            return org(e.value, seen)
        if isinstance(e, ast.Tuple):
            return set().union(*[org(x, seen) for x in e.elts])
        if isinstance(e, (ast.BinOp, ast.UnaryOp, ast.Compare, ast.BoolOp)):
            return {"arith"}
        if isinstance(e, (ast.Constant, ast.List, ast.ListComp, ast.Dict, ast.JoinedStr)):
            return {"literal"}
        if isinstance(e, ast.IfExp):
            return org(e.body, seen) | org(e.orelse, seen)
        if isinstance(e, ast.Name):
            if e.id in seen:
                return set()
            if e.id in assigns:
                return set().union(*[org(v, seen | {e.id}) for v in assigns[e.id]])
            return {("param:" if e.id in params else "global:") + e.id}
        return {"other:" + type(e).__name__}
    out = set()
    for n in ast.walk(f):
        if isinstance(n, ast.Return) and n.value is not None:
            out |= org(n.value, frozenset())
    return sorted(out)


def translate_effects():
    """Decorators and origins of the returned values of the carried functions (round 6: freshness / no aliasing)."""
    ut = ast.parse((SRC / "utils.py").read_text())
    bgt = ast.parse((SRC / "basegrid.py").read_text())
    rows = [("utils.generate_orders_horton_order", _function(ut, "generate_orders_horton_order")),
            ("utils.dipole_moment_of_molecule", _function(ut, "dipole_moment_of_molecule")),
            ("basegrid.Grid.moments", _function(bgt, "moments", "Grid")), ("basegrid.Grid.integrate", _function(bgt, "integrate", "Grid"))]
    q = lambda xs: "[" + ", ".join('"' + x.replace("\\", "\\\\").replace('"', '\\"') + '"' for x in xs) + "]"
    out = ["/-- Per carried function: its decorators and where the values it returns come from (`call:` / `method:` a new object",
           "made by that call, `literal`, `arith`; `param:` an argument handed back, `global:` an object that outlives the call). -/",
           "def returnOrigins : List (String × List String × List String) := ["]
    out += ["  (" + q([name])[1:-1] + ", " + q([ast.unparse(d) for d in f.decorator_list]) + ", " + q(_origins(f)) + ")" + ("," if i + 1 < len(rows) else "")
            for i, (name, f) in enumerate(rows)]
    return out + ["]", ""]


def translate():
    return "\n".join(translate_moments() + translate_integrate() + translate_masses() + translate_dipole() + translate_multidomain() + translate_effects())


def generate():
    text = HEADER.format(name="moments_num", source="src/grid/basegrid.py (Grid.moments: loop over the centres; Grid.integrate), "
                         "src/grid/utils.py (isotopic_masses, dipole_moment_of_molecule), src/grid/ngrid.py (MultiDomainGrid.moments)")
    text += ("import GridVerif.Model.MomentsNum\nimport GridVerif.Gen.Moments\n\nset_option linter.unusedVariables false\n\n"
             "namespace GridVerif.Gen.MomentsNum\nopen GridVerif.Moments GridVerif.Gen.Moments\n\n")
    text += translate()
    text += "\nend GridVerif.Gen.MomentsNum\n"
    return write_if_changed("MomentsNum.lean", text)


if __name__ == "__main__":
    print(translate())

"""Translator: grid/utils.py (harmonics routines) -> Gen/Harmonics.lean, Gen/HarmonicsScipy.lean.

AST based; the NumPy code is element-wise in the points, the generated definitions are for one point.

What is carried:

* `generate_real_spherical_harmonics`: the whole body, statement by statement, as state-passing code over a
  generated structure `YlmState` with one field per *mutable* Python variable: the arrays
  `spherical_harm` (rows) and `p_leg` (one field per literal column index), the running `factorial`
  factor, the row counter `i_sph`.  Every subscript store is a `List.set` at the translated index (so the
  bookkeeping of `i_sph` is part of the text), loops are `foldl` over `List.range'`, `if` statements are
  `if … then … else …` on the state, local helper functions (`a_k`, `b_k`, `fac_sph`) are definitions,
  temporaries (`second_fac`, `common_fact`) are `let`s.  The `dtype` of every array/accumulator is carried
  as a recorded fact (`Var`, `dtype`): the overflow of `sqrt((l+m)!/(l-m)!)` in a float64 accumulator
  beyond l = 150 is invisible to theorems over the reals.
* `solid_harmonics`: the degree list and the row-wise scaling expression.
* `convert_cart_to_sph`: the shape guards, the default centre, the radius (contract for `np.linalg.norm`),
  the angles and the masked repair `phi[r == 0.0] = 0.0`.
* `convert_derivative_from_spherical_to_cartesian`: the nine matrix entries, the two thresholds with their
  column assignments in source order, the final `jacobian.dot`.
* `generate_real_spherical_harmonics_scipy` (round 3, -> Gen/HarmonicsScipy.lean, class `ScipyTranslator`): every statement —
  the three guards, `outside`, the two `np.where` under `if np.any(outside)` (the reduction over the points axis becomes a
  Boolean parameter), the call of SciPy's `sph_harm_y_all` as a named primitive (contract in Model/HarmonicsSciPy.lean),
  `np.ones` / the store `phase_cor_pos[1:] = sqrt(2) * (-1.0) ** arange(…)` under `if l_max > 0`, `np.empty` (content = a
  parameter), the loop with `row_start`, `row_end` and its three stores (two of them strided slices), and next to each
  definition a `…_fits` definition collecting the shape requirements NumPy would raise on (broadcasts, indices, slice stores).

Anything else in those functions (another statement kind, an unknown call, a view that could alias a work
array, a non-literal column index, …) raises `Untranslatable`: the check treats that as a broken proof
obligation.
"""
import ast
import math
from fractions import Fraction

from ..common import SRC
from .util import HEADER, write_if_changed


class Untranslatable(ValueError):
    pass


def _src(node):
    try:
        return ast.unparse(node)
    except Exception:  # pragma: no cover
        return repr(node)


def _nat(n: int) -> str:
    return f"(({n} : Nat) : K)"


def _float_literal(v: float) -> str:
    if not math.isfinite(v) or v < 0:
        raise Untranslatable(f"literal {v!r}")
    fr = Fraction(repr(v))
    if fr.numerator >= 2**53 or fr.denominator >= 2**53 or float(fr.numerator) / float(fr.denominator) != v:
        raise Untranslatable(f"literal {v!r} is not a quotient of two exactly representable integers")
    if fr.denominator == 1:
        return _nat(fr.numerator)
    return f"({_nat(fr.numerator)} / {_nat(fr.denominator)})"


def _body(fn):
    b = list(fn.body)
    if b and isinstance(b[0], ast.Expr) and isinstance(b[0].value, ast.Constant) and isinstance(b[0].value.value, str):
        b = b[1:]
    return b


def _is_slice_all(e):
    return isinstance(e, ast.Slice) and e.lower is None and e.upper is None and e.step is None


def _np_attr(e, names):
    """`np.<name>` with name in names -> name."""
    if isinstance(e, ast.Attribute) and isinstance(e.value, ast.Name) and e.value.id == "np" and e.attr in names:
        return e.attr
    return None


DTYPES = {"np.longdouble": "longdouble", "np.float64": "float64", "float": "float64", "np.double": "float64",
          "int": "int", "np.int64": "int"}
RANK = {"int": 0, "float64": 1, "longdouble": 2}


def _dtype_kw(call):
    for kw in call.keywords:
        if kw.arg == "dtype":
            s = _src(kw.value)
            if s not in DTYPES:
                raise Untranslatable(f"dtype {s}")
            return DTYPES[s]
    return None


ELEM1 = {"sqrt": "Elem.sqrt", "sin": "Elem.sin", "cos": "Elem.cos", "tan": "Elem.tan", "arccos": "Elem.arccos",
         "abs": "Elem.abs", "fabs": "Elem.abs"}


class Ex:
    """Expressions -> Lean terms.  `tr` returns (type, text), type in
    'K' (float scalar), 'N' (natural number), 'Z' (integer, may be negative), 'L' (non-negative integer literal: text = value)."""

    def __init__(self, env):
        self.env = env  # name -> dict(kind=…, lean=…, …)

    # -- coercions -----------------------------------------------------------------------
    def asK(self, t):
        ty, s = t
        if ty == "K":
            return s
        if ty == "N":
            return f"(({s} : Nat) : K)"
        if ty == "L":
            return _nat(int(s))
        if ty == "Z":
            return f"(intToK {s})"  # float(m) of a Python integer
        raise Untranslatable(f"expression {s} used as a float")

    def asNat(self, t):
        ty, s = t
        if ty == "N":
            return s
        if ty == "L":
            return str(s)
        raise Untranslatable(f"expression {s} is not a natural number")

    def asInt(self, t):
        ty, s = t
        if ty == "N":
            return f"({s} : Int)"
        if ty == "L":
            return f"({s} : Int)"
        if ty == "Z":
            return s
        raise Untranslatable(f"float expression {s} used as an integer")

    def index(self, e, length):
        """Index expression on an axis whose length is the Lean term `length`."""
        t = self.tr(e)
        if t[0] in ("N", "L"):
            return self.asNat(t)
        if t[0] == "Z":
            return f"(pyIdx {length} {t[1]})"
        raise Untranslatable(f"float index {_src(e)}")

    # -- expressions -----------------------------------------------------------------------
    def tr(self, e):
        if isinstance(e, ast.Constant):
            v = e.value
            if isinstance(v, bool) or v is None or isinstance(v, (str, complex)):
                raise Untranslatable(f"literal {_src(e)}")
            if isinstance(v, int):
                if v < 0:
                    raise Untranslatable(f"negative literal {v}")
                return ("L", str(v))
            return ("K", _float_literal(v))
        if isinstance(e, ast.Name):
            d = self.env.get(e.id)
            if d is None:
                raise Untranslatable(f"unknown name {e.id}")
            k = d["kind"]
            if k == "nat":
                return ("N", d["lean"])
            if k == "int":
                return ("Z", d["lean"])
            if k == "K":
                return ("K", d["lean"])
            if k == "fieldN":
                return ("N", d["lean"])
            if k == "fieldK" and not d.get("onearr"):
                return ("K", d["lean"])
            raise Untranslatable(f"name {e.id} ({k}) used as a scalar")
        if isinstance(e, ast.Attribute):
            if _np_attr(e, ("pi",)):
                return ("K", "Elem.pi")
            raise Untranslatable(f"attribute {_src(e)}")
        if isinstance(e, ast.UnaryOp) and isinstance(e.op, ast.USub):
            t = self.tr(e.operand)
            if t[0] == "K":
                return ("K", f"(-{t[1]})")
            return ("Z", f"(-{self.asInt(t)})")
        if isinstance(e, ast.IfExp):
            a, b = self.tr(e.body), self.tr(e.orelse)
            if a[0] != "K" and b[0] != "K":
                return ("Z", f"(if {self.cond(e.test)} then {self.asInt(a)} else {self.asInt(b)})")
            return ("K", f"(if {self.cond(e.test)} then {self.asK(a)} else {self.asK(b)})")
        if isinstance(e, ast.BinOp):
            return self.binop(e)
        if isinstance(e, ast.Subscript):
            return self.subscript(e)
        if isinstance(e, ast.Call):
            return self.call(e)
        raise Untranslatable(f"expression {_src(e)}")

    def binop(self, e):
        a, b = self.tr(e.left), self.tr(e.right)
        if isinstance(e.op, ast.Div):
            return ("K", f"({self.asK(a)} / {self.asK(b)})")
        if isinstance(e.op, ast.Pow):
            if a[0] == "K":
                if b[0] == "L" and b[1] == "2":
                    return ("K", f"({a[1]} * {a[1]})")  # NumPy evaluates x ** 2 as x * x
                if b[0] == "K":
                    return ("K", f"(Elem.rpow {a[1]} {b[1]})")
                raise Untranslatable(f"power {_src(e)}")
            if a[0] in ("N", "L") and b[0] == "L":
                return ("N", f"({self.asNat(a)} ^ {b[1]})")
            raise Untranslatable(f"power {_src(e)}")
        ops = {ast.Add: "+", ast.Sub: "-", ast.Mult: "*"}
        for k, s in ops.items():
            if isinstance(e.op, k):
                if a[0] == "K" or b[0] == "K":
                    return ("K", f"({self.asK(a)} {s} {self.asK(b)})")
                if s != "-" and a[0] in ("N", "L") and b[0] in ("N", "L"):
                    return ("N", f"({self.asNat(a)} {s} {self.asNat(b)})")
                return ("Z", f"({self.asInt(a)} {s} {self.asInt(b)})")
        if isinstance(e.op, ast.FloorDiv):
            if a[0] in ("N", "L") and b[0] in ("N", "L"):
                return ("N", f"({self.asNat(a)} / {self.asNat(b)})")
        raise Untranslatable(f"operator in {_src(e)}")

    def subscript(self, e):
        if not isinstance(e.value, ast.Name):
            raise Untranslatable(f"subscript {_src(e)}")
        d = self.env.get(e.value.id)
        if d is None:
            raise Untranslatable(f"unknown name {e.value.id}")
        idx = list(e.slice.elts) if isinstance(e.slice, ast.Tuple) else [e.slice]
        z = _nat(0)
        if d["kind"] == "arr2":
            if len(idx) == 3 and _is_slice_all(idx[2]):
                idx = idx[:2]
            if len(idx) != 2:
                raise Untranslatable(f"subscript {_src(e)}")
            c = idx[1]
            if not (isinstance(c, ast.Constant) and isinstance(c.value, int) and 0 <= c.value < d["ncols"]):
                raise Untranslatable(f"column index of {_src(e)} is not a literal")
            col = f"{d['lean']}_{c.value}"
            return ("K", f"({col}.getD {self.index(idx[0], col + '.length')} {z})")
        if d["kind"] in ("arr1", "rows"):
            if len(idx) == 2 and _is_slice_all(idx[1]):
                idx = idx[:1]
            if len(idx) != 1:
                raise Untranslatable(f"subscript {_src(e)}")
            return ("K", f"({d['lean']}.getD {self.index(idx[0], d['lean'] + '.length')} {z})")
        if d["kind"] == "fieldK" and d.get("onearr"):
            if len(idx) == 1 and isinstance(idx[0], ast.Constant) and idx[0].value == 0:
                return ("K", d["lean"])
            raise Untranslatable(f"subscript {_src(e)} of a one-element array")
        if d["kind"] == "vec3":
            # v[:, k] of an (N, 3) array: component k of the point
            if len(idx) == 2 and _is_slice_all(idx[0]) and isinstance(idx[1], ast.Constant) and idx[1].value in (0, 1, 2):
                return ("K", f"{d['lean']}_{idx[1].value}")
            raise Untranslatable(f"subscript {_src(e)}")
        raise Untranslatable(f"subscript {_src(e)}")

    def call(self, e):
        f = e.func
        if isinstance(f, ast.Name) and f.id == "float" and len(e.args) == 1 and not e.keywords:
            return ("K", self.asK(self.tr(e.args[0])))
        if isinstance(f, ast.Name) and f.id == "int" and len(e.args) == 1 and not e.keywords:
            # int(x) of an integer-valued expression: x is re-read as integer arithmetic (np.fabs(n) = |n|)
            self.intmode = getattr(self, "intmode", 0) + 1
            try:
                t = self.tr(e.args[0])
            finally:
                self.intmode -= 1
            if t[0] == "K":
                raise Untranslatable(f"int() of a float expression: {_src(e)}")
            return t
        if isinstance(f, ast.Name) and f.id in self.env and self.env[f.id]["kind"] == "fnZ":
            d = self.env[f.id]
            if len(e.args) != d["arity"] or e.keywords:
                raise Untranslatable(f"call {_src(e)}")
            return ("Z", "(" + " ".join([d["lean"]] + [self.asInt(self.tr(a)) for a in e.args]) + ")")
        if _np_attr(f, ("abs", "fabs")) and len(e.args) == 1 and not e.keywords:
            # |n| of an integer n (possibly through float(n)): exact, carried as the natural number n.natAbs
            a = e.args[0]
            floating = _np_attr(f, ("fabs",)) is not None
            while isinstance(a, ast.Call) and isinstance(a.func, ast.Name) and a.func.id in ("float", "int") and len(a.args) == 1:
                floating = floating or a.func.id == "float"
                a = a.args[0]
            try:
                t = self.tr(a)
            except Untranslatable:
                t = ("K", "")
            if t[0] in ("Z", "N", "L"):
                n = f"({t[1]}).natAbs" if t[0] == "Z" else self.asNat(t)
                if floating and not getattr(self, "intmode", 0):
                    return ("K", f"(({n} : Nat) : K)")
                return ("N", n)
        if _np_attr(f, ("where",)) and len(e.args) == 3 and not e.keywords:
            return ("K", f"(if {self.cond(e.args[0])} then {self.asK(self.tr(e.args[1]))} else {self.asK(self.tr(e.args[2]))})")
        if isinstance(f, ast.Name) and f.id in self.env and self.env[f.id]["kind"] == "fn":
            d = self.env[f.id]
            if len(e.args) != d["arity"] or e.keywords:
                raise Untranslatable(f"call {_src(e)}")
            return ("K", "(" + " ".join([d["lean"]] + [self.asK(self.tr(a)) for a in e.args]) + ")")
        name = _np_attr(f, tuple(ELEM1) + ("array", "arctan2"))
        if name in ELEM1:
            if len(e.args) != 1 or any(kw.arg != "dtype" for kw in e.keywords):
                raise Untranslatable(f"call {_src(e)}")
            _dtype_kw(e)
            return ("K", f"({ELEM1[name]} {self.asK(self.tr(e.args[0]))})")
        if name == "arctan2" and len(e.args) == 2 and not e.keywords:
            return ("K", f"(Elem.arctan2 {self.asK(self.tr(e.args[0]))} {self.asK(self.tr(e.args[1]))})")
        if name == "array":
            # np.array([x], dtype=…): a one-element array, identified with its element
            if len(e.args) == 1 and isinstance(e.args[0], ast.List) and len(e.args[0].elts) == 1 and all(kw.arg == "dtype" for kw in e.keywords):
                _dtype_kw(e)
                return ("K", self.asK(self.tr(e.args[0].elts[0])))
        raise Untranslatable(f"call {_src(e)}")

    def cond(self, e):
        if isinstance(e, ast.BoolOp):
            op = " ∧ " if isinstance(e.op, ast.And) else " ∨ "
            return "(" + op.join(self.cond(v) for v in e.values) + ")"
        if not (isinstance(e, ast.Compare) and len(e.ops) == 1):
            raise Untranslatable(f"condition {_src(e)}")
        a, b = self.tr(e.left), self.tr(e.comparators[0])
        op = e.ops[0]
        if a[0] == "K" or b[0] == "K":
            x, y = self.asK(a), self.asK(b)
            if isinstance(op, ast.Lt):
                return f"({x} < {y})"
            if isinstance(op, ast.Gt):
                return f"({y} < {x})"
            if isinstance(op, ast.Eq):
                return f"(eqK {x} {y})"
            if isinstance(op, ast.NotEq):
                return f"(¬ eqK {x} {y})"
            raise Untranslatable(f"float comparison {_src(e)}")
        if a[0] in ("N", "L") and b[0] in ("N", "L"):
            x, y = self.asNat(a), self.asNat(b)
        else:
            x, y = self.asInt(a), self.asInt(b)
        sym = {ast.Eq: "=", ast.NotEq: "≠", ast.Lt: "<", ast.LtE: "≤", ast.Gt: ">", ast.GtE: "≥"}
        for k, s in sym.items():
            if isinstance(op, k):
                return f"({x} {s} {y})"
        raise Untranslatable(f"comparison {_src(e)}")

    # -- dtype of the value a NumPy expression produces -----------------------------------------
    def dtype(self, e):
        if isinstance(e, ast.Constant):
            return "int" if isinstance(e.value, int) else "float64"
        if isinstance(e, ast.Name):
            d = self.env.get(e.id, {})
            return d.get("dtype", "int" if d.get("kind") in ("nat", "fieldN") else "float64")
        if isinstance(e, ast.Attribute):
            return "float64"
        if isinstance(e, ast.UnaryOp):
            return self.dtype(e.operand)
        if isinstance(e, ast.IfExp):
            return max(self.dtype(e.body), self.dtype(e.orelse), key=RANK.get)
        if isinstance(e, ast.BinOp):
            r = max(self.dtype(e.left), self.dtype(e.right), key=RANK.get)
            return "float64" if isinstance(e.op, ast.Div) and r == "int" else r
        if isinstance(e, ast.Subscript) and isinstance(e.value, ast.Name):
            return self.env.get(e.value.id, {}).get("dtype", "float64")
        if isinstance(e, ast.Call):
            if isinstance(e.func, ast.Name):
                return "float64"  # float(…), local helper functions (Python floats / float64 scalars)
            name = _np_attr(e.func, tuple(ELEM1) + ("array", "arctan2", "zeros"))
            dk = _dtype_kw(e)
            if dk:
                return dk
            if name == "array" and e.args and isinstance(e.args[0], ast.List):
                r = max([self.dtype(x) for x in e.args[0].elts] or ["float64"], key=RANK.get)
                return r
            if name in ELEM1 or name == "arctan2":
                r = max([self.dtype(a) for a in e.args], key=RANK.get)
                return "float64" if r == "int" else r
            if name == "zeros":
                return "float64"
        raise Untranslatable(f"dtype of {_src(e)}")


# ------------------------------------------------------------------------------------------------
# generate_real_spherical_harmonics
# ------------------------------------------------------------------------------------------------
def _names_loaded(node):
    return [n.id for n in ast.walk(node) if isinstance(n, ast.Name) and isinstance(n.ctx, ast.Load)]


class YlmTranslator:
    """State-passing translation of `generate_real_spherical_harmonics`."""

    STATE = "YlmState"

    def __init__(self, fn):
        self.fn = fn
        self.env = {}
        self.fields = []     # (lean field, type text, init text, comment)
        self.dtypes = []     # (python name, dtype)
        self.defs = []       # Lean text of definitions, in order
        self.temps = set()
        self.unbound = []    # state scalars without a value before the loops: (name, parameter)
        self.ex = Ex(self.env)
        self.loop_names = []

    # -- classification ------------------------------------------------------------------------
    def classify(self):
        fn = self.fn
        args = [a.arg for a in fn.args.args]
        if args != ["l_max", "theta", "phi"] or fn.args.defaults or fn.args.vararg or fn.args.kwarg:
            raise Untranslatable(f"signature of {fn.name}: {args}")
        self.env["l_max"] = dict(kind="nat", lean="l_max")
        self.env["theta"] = dict(kind="K", lean="theta", dtype="float64")
        self.env["phi"] = dict(kind="K", lean="phi", dtype="float64")
        body = _body(fn)
        # which names are stored to, and how
        plain, aug, sub = {}, set(), set()
        for n in ast.walk(fn):
            if isinstance(n, ast.Assign):
                if len(n.targets) != 1:
                    raise Untranslatable(f"multiple targets: {_src(n)}")
                t = n.targets[0]
                if isinstance(t, ast.Name):
                    plain.setdefault(t.id, []).append(n)
                elif isinstance(t, ast.Subscript) and isinstance(t.value, ast.Name):
                    sub.add(t.value.id)
                else:
                    raise Untranslatable(f"assignment target {_src(t)}")
            elif isinstance(n, ast.AugAssign):
                t = n.target
                if isinstance(t, ast.Name):
                    aug.add(t.id)
                elif isinstance(t, ast.Subscript) and isinstance(t.value, ast.Name):
                    aug.add(t.value.id)
                    sub.add(t.value.id)
                else:
                    raise Untranslatable(f"assignment target {_src(t)}")
            elif isinstance(n, (ast.AnnAssign, ast.Delete, ast.Global, ast.Nonlocal, ast.While, ast.Try, ast.With,
                                ast.Lambda, ast.NamedExpr, ast.Starred, ast.ListComp, ast.GeneratorExp, ast.Yield)):
                raise Untranslatable(f"statement/expression kind {type(n).__name__}: {_src(n)[:60]}")
        self.plain, self.aug, self.sub = plain, aug, sub
        return body

    def is_temp(self, name, block):
        """A temporary: one plain assignment, never augmented/subscript-stored, every load inside `block` after it."""
        if name in self.aug or name in self.sub or len(self.plain.get(name, [])) != 1:
            return False
        assign = self.plain[name][0]
        if assign not in block:
            return False
        pos = block.index(assign)
        inside = sum(_names_loaded(s).count(name) for s in block[pos + 1:])
        total = _names_loaded(self.fn).count(name)
        return inside == total and name not in _names_loaded(assign.value)

    # -- statements ------------------------------------------------------------------------------
    def set_array(self, target, value_text):
        """`A[idx] = value` on a state array -> record update text."""
        d = self.env[target.value.id]
        idx = list(target.slice.elts) if isinstance(target.slice, ast.Tuple) else [target.slice]
        if d["kind"] == "arr1":
            if len(idx) == 2 and _is_slice_all(idx[1]):
                idx = idx[:1]
            if len(idx) != 1:
                raise Untranslatable(f"store {_src(target)}")
            i = self.ex.index(idx[0], d["lean"] + ".length")
            return f"{{ st with {d['name']} := {d['lean']}.set {i} {value_text} }}"
        if d["kind"] == "arr2":
            while len(idx) > 2 and _is_slice_all(idx[-1]):
                idx = idx[:-1]
            if len(idx) == 1:
                cols = list(range(d["ncols"]))
            elif len(idx) == 2 and _is_slice_all(idx[1]):
                cols = list(range(d["ncols"]))
            elif len(idx) == 2 and isinstance(idx[1], ast.Constant) and isinstance(idx[1].value, int) and 0 <= idx[1].value < d["ncols"]:
                cols = [idx[1].value]
            else:
                raise Untranslatable(f"store {_src(target)}")
            ups = []
            for c in cols:
                col = f"{d['lean']}_{c}"
                i = self.ex.index(idx[0], col + ".length")
                ups.append(f"{d['name']}_{c} := {col}.set {i} {value_text}")
            return "{ st with " + ", ".join(ups) + " }"
        raise Untranslatable(f"store {_src(target)}")

    def check_no_view(self, value):
        """The right-hand side of a temporary must be a fresh array (an arithmetic result), not a view of a work array."""
        v = value
        if isinstance(v, ast.IfExp):
            self.check_no_view(v.body)
            self.check_no_view(v.orelse)
            return
        if isinstance(v, ast.Subscript) or (isinstance(v, ast.Name) and self.env.get(v.id, {}).get("kind") in ("arr1", "arr2")):
            raise Untranslatable(f"temporary bound to a view of a work array: {_src(v)}")

    def block(self, stmts, ind):
        """Lean lines (at indentation `ind`) threading `st` through the statements; the block's value is `st`."""
        out = []
        pad = " " * ind
        S = self.STATE
        for s in stmts:
            src1 = _src(s).split("\n")[0]
            if isinstance(s, ast.Assign):
                t = s.targets[0]
                if isinstance(t, ast.Name):
                    if self.is_temp(t.id, stmts):
                        self.check_no_view(s.value)
                        self.env[t.id] = dict(kind="K", lean=t.id, dtype=self.ex.dtype(s.value))
                        self.temps.add(t.id)
                        out.append(f"{pad}-- {src1}")
                        out.append(f"{pad}let {t.id} : K := {self.ex.asK(self.ex.tr(s.value))}")
                        continue
                    d = self.env.get(t.id)
                    if d is None or d["kind"] not in ("fieldK", "fieldN"):
                        raise Untranslatable(f"assignment to {t.id}: {src1}")
                    v = self.ex.tr(s.value)
                    txt = self.ex.asK(v) if d["kind"] == "fieldK" else self.ex.asNat(v)
                    out.append(f"{pad}-- {src1}")
                    out.append(f"{pad}let st : {S} K := {{ st with {d['name']} := {txt} }}")
                    continue
                d = self.env.get(t.value.id)
                if d is None or d["kind"] not in ("arr1", "arr2"):
                    raise Untranslatable(f"store {src1}")
                out.append(f"{pad}-- {src1}")
                out.append(f"{pad}let st : {S} K := {self.set_array(t, self.ex.asK(self.ex.tr(s.value)))}")
                continue
            if isinstance(s, ast.AugAssign):
                t = s.target
                name = t.id if isinstance(t, ast.Name) else t.value.id
                d = self.env.get(name)
                if d is None or d["kind"] not in ("fieldK", "fieldN"):
                    raise Untranslatable(f"augmented assignment {src1}")
                if isinstance(t, ast.Subscript):
                    if not (d.get("onearr") and isinstance(t.slice, ast.Constant) and t.slice.value == 0):
                        raise Untranslatable(f"augmented assignment {src1}")
                elif d.get("onearr"):
                    raise Untranslatable(f"augmented assignment to the whole one-element array: {src1}")
                op = {ast.Add: "+", ast.Mult: "*"}.get(type(s.op))
                if op is None:
                    raise Untranslatable(f"augmented assignment {src1}")
                v = self.ex.tr(s.value)
                txt = self.ex.asK(v) if d["kind"] == "fieldK" else self.ex.asNat(v)
                out.append(f"{pad}-- {src1}")
                out.append(f"{pad}let st : {S} K := {{ st with {d['name']} := {d['lean']} {op} {txt} }}")
                continue
            if isinstance(s, ast.If):
                out.append(f"{pad}-- {src1}")
                out.append(f"{pad}let st : {S} K :=")
                out.append(f"{pad}  if {self.ex.cond(s.test)} then")
                saved = set(self.temps)
                out += self.block(s.body, ind + 4)
                out.append(f"{pad}    st")
                out.append(f"{pad}  else")
                out += self.block(s.orelse, ind + 4)
                out.append(f"{pad}    st")
                # temporaries of the branches are out of scope now (is_temp guarantees they are not read later)
                for n in self.temps - saved:
                    self.env.pop(n, None)
                self.temps = saved
                continue
            if isinstance(s, ast.For):
                name = self.loop(s)
                rng, args = self.loop_names[-1][1], self.loop_names[-1][2]
                out.append(f"{pad}-- {src1}")
                out.append(f"{pad}let st : {S} K := ({rng}).foldl ({' '.join([name] + args)}) st")
                continue
            raise Untranslatable(f"statement {src1}")
        return out

    def arange(self, it):
        """`np.arange(a, b, dtype=int)` / `range(a, b)` -> `List.range' a (b - a)`."""
        ok = isinstance(it, ast.Call) and (_np_attr(it.func, ("arange",)) or (isinstance(it.func, ast.Name) and it.func.id == "range"))
        if not ok or not (1 <= len(it.args) <= 2):
            raise Untranslatable(f"loop range {_src(it)}")
        for kw in it.keywords:
            if kw.arg != "dtype" or _src(kw.value) not in ("int", "np.int64"):
                raise Untranslatable(f"loop range {_src(it)}")
        a = self.ex.asNat(self.ex.tr(it.args[0])) if len(it.args) == 2 else "0"
        b = self.ex.asNat(self.ex.tr(it.args[-1]))
        return f"List.range' {a} ({b} - {a})"

    def loop(self, s):
        """A `for` statement -> a definition of its body as a function `State → Nat → State`; returns its name."""
        if s.orelse or not isinstance(s.target, ast.Name):
            raise Untranslatable(f"loop {_src(s)[:60]}")
        var = s.target.id
        if var in self.env:
            raise Untranslatable(f"loop variable {var} shadows another name")
        rng = self.arange(s.iter)
        self.env[var] = dict(kind="nat", lean=var)
        lines = self.block(s.body, 2)
        self.env.pop(var)
        # parameters: the names of the context the body refers to
        used = set(_names_loaded(s))
        params = []
        for n, d in self.env.items():
            if n in used and d["kind"] in ("nat", "K") and n not in self.temps:
                params.append((n, "Nat" if d["kind"] == "nat" else "K"))
        name = f"step_{var}"
        sig = " ".join(f"({n} : {t})" for n, t in params)
        doc = f"/-- Body of `for {var} in {_src(s.iter)}:` of `{self.fn.name}`. -/"
        text = [doc, f"def {name} {sig} (st : {self.STATE} K) ({var} : Nat) : {self.STATE} K :="] + lines + ["  st", ""]
        self.defs.append("\n".join(text))
        self.loop_names.append((name, rng, [n for n, _ in params]))
        return name

    # -- the routine --------------------------------------------------------------------------------
    def run(self):
        body = self.classify()
        pts_axis = None
        pre = []       # lines of the main definition
        ret = None
        S = self.STATE
        state_started = False
        helper_defs = []
        # pass 1: declarations; every other top-level statement is kept, in order, for pass 2
        rest = []
        for s in body:
            src1 = _src(s).split("\n")[0]
            if isinstance(s, ast.FunctionDef):
                a = [x.arg for x in s.args.args]
                b = _body(s)
                if s.args.defaults or len(b) != 1 or not isinstance(b[0], ast.Return):
                    raise Untranslatable(f"local function {s.name}")
                free = set(_names_loaded(b[0])) - set(a) - {"np", "float"}
                if free:
                    raise Untranslatable(f"local function {s.name} refers to {sorted(free)}")
                env2 = {}
                for x in a:
                    env2[x] = dict(kind="K", lean=x, dtype="float64")
                txt = Ex(env2).asK(Ex(env2).tr(b[0].value))
                helper_defs.append(f"/-- `{s.name}({', '.join(a)})`: `{_src(b[0])}`. -/\n"
                                   f"def {s.name} ({' '.join(a)} : K) : K :=\n  {txt}\n")
                self.env[s.name] = dict(kind="fn", lean=s.name, arity=len(a))
                continue
            if isinstance(s, ast.Assign) and isinstance(s.targets[0], ast.Name):
                name = s.targets[0].id
                v = s.value
                if _src(v) == "len(theta)" or _src(v) == "len(phi)":
                    pts_axis = name
                    continue
                if isinstance(v, ast.Call) and _np_attr(v.func, ("zeros",)):
                    if name not in self.sub or len(self.plain[name]) != 1 or state_started and name in _names_loaded(ast.Module(body=rest, type_ignores=[])):
                        raise Untranslatable(f"array {name} is rebound: {src1}")
                    shape = v.args[0]
                    dims = list(shape.elts) if isinstance(shape, ast.Tuple) else [shape]
                    if not dims or _src(dims[-1]) != pts_axis:
                        raise Untranslatable(f"last axis of {name} is not the points axis: {src1}")
                    dims = dims[:-1]
                    dt = _dtype_kw(v) or "float64"
                    n = self.ex.asNat(self.ex.tr(dims[0]))
                    if len(dims) == 1:
                        self.env[name] = dict(kind="arr1", lean=f"st.{name}", name=name, dtype=dt)
                        self.fields.append((name, "List K", f"zerosK {n}", f"`{name}[i, :]` at the point: `{src1}`"))
                    elif len(dims) == 2 and isinstance(dims[1], ast.Constant) and isinstance(dims[1].value, int) and 1 <= dims[1].value <= 4:
                        nc = dims[1].value
                        self.env[name] = dict(kind="arr2", lean=f"st.{name}", name=name, ncols=nc, dtype=dt)
                        for c in range(nc):
                            self.fields.append((f"{name}_{c}", "List K", f"zerosK {n}", f"`{name}[i, {c}, :]` at the point: `{src1}`"))
                    else:
                        raise Untranslatable(f"shape of {name}: {src1}")
                    self.dtypes.append((name, dt))
                    continue
                if name in self.aug and name not in self.sub and isinstance(v, ast.Constant) and isinstance(v.value, int) \
                        and not isinstance(v.value, bool) and v.value >= 0 and len(self.plain[name]) == 1:
                    if name in _names_loaded(ast.Module(body=rest, type_ignores=[])):
                        raise Untranslatable(f"{name} is read before its initialisation: {src1}")
                    self.env[name] = dict(kind="fieldN", lean=f"st.{name}", name=name)
                    self.fields.append((name, "Nat", str(v.value), f"`{src1}`"))
                    continue
                if name not in self.aug and name not in self.sub and len(self.plain[name]) == 1 and not state_started:
                    # a constant of the routine (sin_phi, cos_phi)
                    dt = self.ex.dtype(v)
                    txt = self.ex.asK(self.ex.tr(v))
                    self.env[name] = dict(kind="K", lean=name, dtype=dt)
                    self.dtypes.append((name, dt))
                    pre.append(f"  -- {src1}")
                    pre.append(f"  let {name} : K := {txt}")
                    continue
            rest.append(s)
            state_started = True
        # state scalars that are assigned only inside the loops (no value before the first iteration)
        for name, assigns in self.plain.items():
            if name in self.env or name == pts_axis:
                continue
            if name in self.aug:
                onearr = all(isinstance(a.value, ast.Call) and "np.array([" in _src(a.value) for a in assigns)
                # reads must be consistent with the representation
                dts = {self.ex.dtype(a.value) for a in assigns}
                dt = min(dts, key=RANK.get)
                if not onearr:
                    # a NumPy/Python scalar: `x *= y` rebinds x to the promoted product; record the weakest type in the chain
                    dt = min([dt], key=RANK.get)
                self.env[name] = dict(kind="fieldK", lean=f"st.{name}", name=name, onearr=onearr, dtype=dt)
                self.fields.append((name, "K", f"{name}0", f"`{_src(assigns[0])}` (no value before the loops: parameter `{name}0`)"))
                self.unbound.append((name, f"{name}0"))
                self.dtypes.append((name, dt))
        if not isinstance(rest[-1], ast.Return):
            raise Untranslatable("the routine does not end with a return")
        ret = rest[-1].value
        if not (isinstance(ret, ast.Name) and self.env.get(ret.id, {}).get("kind") == "arr1"):
            raise Untranslatable(f"return value {_src(ret)}")
        main = self.block(rest[:-1], 2)
        # assemble
        out = []
        out.append("/-- Variables of `generate_real_spherical_harmonics` whose storage type is recorded. -/")
        out.append("inductive Var where")
        for n, _ in self.dtypes:
            out.append(f"  | {n}")
        out.append("  deriving DecidableEq, Repr\n")
        out.append("/-- The `dtype` each of them is created with, as written in the source\n"
                   "(`np.longdouble` keeps `sqrt((l+m)!/(l-m)!)` finite up to the largest supported degrees; float64 overflows beyond l = 150). -/")
        out.append("def dtype : Var → DType")
        for n, dt in self.dtypes:
            out.append(f"  | .{n} => .{dt}")
        out.append("")
        out.append("section generic")
        out.append("variable {K : Type} [Add K] [Sub K] [Mul K] [Div K] [Neg K] [NatCast K] [Elem K]\n")
        out += helper_defs
        out.append(f"/-- The mutable variables of `{self.fn.name}` (one point of the last axis). -/")
        out.append(f"structure {S} (K : Type) where")
        for f, ty, _, com in self.fields:
            out.append(f"  /-- {com} -/")
            out.append(f"  {f} : {ty}")
        out.append("")
        out += self.defs
        params = " ".join(f"({p} : K)" for _, p in self.unbound)
        out.append(f"/-- `{self.fn.name}(l_max, theta, phi)` at one point" +
                   (f"; {', '.join('`' + p + '`' for _, p in self.unbound)}: content of the variable(s) "
                    f"{', '.join('`' + n + '`' for n, _ in self.unbound)} before the first assignment (unbound in Python)." if self.unbound else ".") + " -/")
        out.append(f"def ylm {params} (l_max : Nat) (theta phi : K) : List K :=")
        out += pre
        out.append(f"  let st : {S} K :=")
        out.append("    { " + ",\n      ".join(f"{f} := {init}" for f, _, init, _ in self.fields) + " }")
        out += main
        out.append(f"  st.{ret.id}")
        out.append("")
        return "\n".join(out)


# ------------------------------------------------------------------------------------------------
# solid_harmonics
# ------------------------------------------------------------------------------------------------
def _solid(fn, unbound_params):
    b = _body(fn)
    if [a.arg for a in fn.args.args] != ["l_max", "sph_pts"] or len(b) != 4:
        raise Untranslatable("solid_harmonics: signature/shape of the body")
    if _src(b[0]) != "r, theta, phi = sph_pts.T":
        raise Untranslatable(f"solid_harmonics: {_src(b[0])}")
    if _src(b[1]) != "spherical_harm = generate_real_spherical_harmonics(l_max, theta, phi)":
        raise Untranslatable(f"solid_harmonics: {_src(b[1])}")
    # degrees = np.array(sum([[float(l_deg)] * (2 * l_deg + 1) for l_deg in np.arange(l_max + 1, dtype=int)], []), dtype=…)
    s = b[2]
    ok = (isinstance(s, ast.Assign) and _src(s.targets[0]) == "degrees" and isinstance(s.value, ast.Call)
          and _np_attr(s.value.func, ("array",)) and len(s.value.args) == 1)
    if not ok:
        raise Untranslatable(f"solid_harmonics: {_src(s)}")
    dt = _dtype_kw(s.value) or "float64"
    inner = s.value.args[0]
    ok = (isinstance(inner, ast.Call) and isinstance(inner.func, ast.Name) and inner.func.id == "sum" and len(inner.args) == 2
          and _src(inner.args[1]) == "[]" and isinstance(inner.args[0], ast.ListComp) and len(inner.args[0].generators) == 1)
    if not ok:
        raise Untranslatable(f"solid_harmonics: {_src(s)}")
    comp = inner.args[0]
    g = comp.generators[0]
    if g.ifs or not isinstance(g.target, ast.Name):
        raise Untranslatable(f"solid_harmonics: {_src(comp)}")
    var = g.target.id
    env = {"l_max": dict(kind="nat", lean="l_max")}
    ex = Ex(env)
    it = g.iter
    if not (isinstance(it, ast.Call) and _np_attr(it.func, ("arange",)) and len(it.args) == 1
            and all(kw.arg == "dtype" and _src(kw.value) == "int" for kw in it.keywords)):
        raise Untranslatable(f"solid_harmonics: range {_src(it)}")
    stop = ex.asNat(ex.tr(it.args[0]))
    env[var] = dict(kind="nat", lean=var)
    elt = comp.elt
    if not (isinstance(elt, ast.BinOp) and isinstance(elt.op, ast.Mult) and isinstance(elt.left, ast.List) and len(elt.left.elts) == 1):
        raise Untranslatable(f"solid_harmonics: {_src(elt)}")
    item = ex.asK(ex.tr(elt.left.elts[0]))
    count = ex.asNat(ex.tr(elt.right))
    env.pop(var)
    # return spherical_harm * r ** degrees[:, None] * np.sqrt(4.0 * np.pi / (2 * degrees[:, None] + 1))
    r = b[3]
    if not isinstance(r, ast.Return):
        raise Untranslatable("solid_harmonics: no return")

    class Rows(ast.NodeTransformer):
        def visit_Subscript(self, node):
            if _src(node) == "degrees[:, None]":
                return ast.copy_location(ast.Name(id="degree_", ctx=ast.Load()), node)
            return node

        def visit_Name(self, node):
            if node.id == "spherical_harm":
                return ast.copy_location(ast.Name(id="y_", ctx=ast.Load()), node)
            if node.id == "degrees":
                raise Untranslatable("solid_harmonics: `degrees` used other than as degrees[:, None]")
            return node

    expr = Rows().visit(ast.parse(_src(r.value), mode="eval").body)
    env2 = {"r": dict(kind="K", lean="r"), "y_": dict(kind="K", lean="y"), "degree_": dict(kind="K", lean="degree")}
    names = set(_names_loaded(expr)) - {"np"}
    if not names <= {"r", "y_", "degree_"} or not {"y_", "degree_"} <= names:
        raise Untranslatable(f"solid_harmonics: names in the return expression: {sorted(names)}")
    scal = Ex(env2).asK(Ex(env2).tr(expr))
    up = " ".join(f"({p} : K)" for p in unbound_params)
    ua = " ".join(unbound_params)
    out = [
        f"/-- `solid_harmonics`: `{_src(s)}` (dtype {dt}). -/",
        "def solidDegrees (l_max : Nat) : List K :=",
        f"  (List.range' 0 ({stop} - 0)).flatMap (fun ({var} : Nat) => List.replicate {count} {item})",
        "",
        f"/-- `solid_harmonics`: `{_src(r)}`, row by row (`y` = row of `spherical_harm`, `degree` = entry of `degrees[:, None]`). -/",
        "def solidScale (r y degree : K) : K :=",
        f"  {scal}",
        "",
        "/-- `solid_harmonics(l_max, [(r, theta, phi)])` at one point. -/",
        f"def solid {up} (l_max : Nat) (r theta phi : K) : List K :=",
        f"  List.zipWith (solidScale r) (ylm {ua} l_max theta phi) (solidDegrees l_max)",
        "",
    ]
    return "\n".join(out), dt


# ------------------------------------------------------------------------------------------------
# convert_cart_to_sph
# ------------------------------------------------------------------------------------------------
def _cart_to_sph(fn):
    b = _body(fn)
    if [a.arg for a in fn.args.args] != ["points", "center"] or _src(fn.args.defaults[0]) != "None":
        raise Untranslatable("convert_cart_to_sph: signature")
    out = []
    # guards
    g0, g1, g2 = b[0], b[1], b[2]
    if not (isinstance(g0, ast.If) and len(g0.body) == 1 and isinstance(g0.body[0], ast.Raise) and not g0.orelse
            and _src(g0.test) == "points.ndim != 2 or points.shape[1] != 3" and _src(g0.body[0].exc).startswith("ValueError(")):
        raise Untranslatable(f"convert_cart_to_sph: shape guard {_src(g0.test)}")
    if _src(g1) != "center = np.zeros(3, dtype=float) if center is None else np.asarray(center)":
        raise Untranslatable(f"convert_cart_to_sph: {_src(g1)}")
    if not (isinstance(g2, ast.If) and len(g2.body) == 1 and isinstance(g2.body[0], ast.Raise) and not g2.orelse
            and _src(g2.test) == "len(center) != 3" and _src(g2.body[0].exc).startswith("ValueError(")):
        raise Untranslatable(f"convert_cart_to_sph: centre guard {_src(g2.test)}")
    out += [
        "/-- `convert_cart_to_sph`: `if points.ndim != 2 or points.shape[1] != 3: raise ValueError`. -/",
        "def cartToSphRejectsPoints (ndim shape1 : Nat) : Bool := ndim != 2 || shape1 != 3",
        "",
        "/-- `convert_cart_to_sph`: `if len(center) != 3: raise ValueError`. -/",
        "def cartToSphRejectsCenter (len : Nat) : Bool := len != 3",
        "",
        "/-- `convert_cart_to_sph`: `center = np.zeros(3, dtype=float) if center is None else np.asarray(center)`. -/",
        "def centerOrOrigin (center : Option (K × K × K)) : K × K × K :=",
        f"  match center with\n  | none => ({_nat(0)}, {_nat(0)}, {_nat(0)})\n  | some c => c",
        "",
    ]
    env = {}
    ex = Ex(env)
    lines = []
    ret = None
    stmts = []
    for s in b[3:]:
        if isinstance(s, ast.With):
            if not all(_src(i.context_expr).startswith("np.errstate(") for i in s.items):
                raise Untranslatable(f"convert_cart_to_sph: {_src(s)[:60]}")
            stmts += s.body
        else:
            stmts.append(s)
    for s in stmts:
        src1 = _src(s)
        if isinstance(s, ast.Return):
            ret = s
            break
        if not (isinstance(s, ast.Assign) and len(s.targets) == 1):
            raise Untranslatable(f"convert_cart_to_sph: {src1}")
        t, v = s.targets[0], s.value
        if src1 == "relat_pts = points - center":
            env["relat_pts"] = dict(kind="vec3", lean="relat_pts")
            lines.append(f"  -- {src1}")
            lines.append("  let relat_pts_0 : K := points.1 - center.1")
            lines.append("  let relat_pts_1 : K := points.2.1 - center.2.1")
            lines.append("  let relat_pts_2 : K := points.2.2 - center.2.2")
            continue
        if isinstance(t, ast.Name) and _src(v) == "np.linalg.norm(relat_pts, axis=-1)" and "relat_pts" in env:
            env[t.id] = dict(kind="K", lean=t.id)
            lines.append(f"  -- {src1}   (contract for np.linalg.norm along the last axis: sqrt of the sum of squares)")
            lines.append(f"  let {t.id} : K := Elem.sqrt (relat_pts_0 * relat_pts_0 + relat_pts_1 * relat_pts_1 + relat_pts_2 * relat_pts_2)")
            continue
        if isinstance(t, ast.Name):
            txt = ex.asK(ex.tr(v))
            env[t.id] = dict(kind="K", lean=t.id)
            lines.append(f"  -- {src1}")
            lines.append(f"  let {t.id} : K := {txt}")
            continue
        if isinstance(t, ast.Subscript) and isinstance(t.value, ast.Name) and env.get(t.value.id, {}).get("kind") == "K" and isinstance(t.slice, ast.Compare):
            # masked assignment x[cond] = value
            name = t.value.id
            lines.append(f"  -- {src1}")
            lines.append(f"  let {name} : K := if {ex.cond(t.slice)} then {ex.asK(ex.tr(v))} else {name}")
            continue
        raise Untranslatable(f"convert_cart_to_sph: {src1}")
    if ret is None or not _src(ret.value).startswith("np.vstack([") or not _src(ret.value).endswith("]).T"):
        raise Untranslatable("convert_cart_to_sph: return value")
    comps = ret.value.value.args[0].elts
    if len(comps) != 3 or not all(isinstance(c, ast.Name) and env.get(c.id, {}).get("kind") == "K" for c in comps):
        raise Untranslatable(f"convert_cart_to_sph: {_src(ret)}")
    out.append("/-- `convert_cart_to_sph(points, center)` for one point (row of `points`), `center` after the default was applied. -/")
    out.append("def cartToSph [LT K] [DecidableLT K] (points center : K × K × K) : K × K × K :=")
    out += lines
    out.append(f"  -- {_src(ret)}")
    out.append("  (" + ", ".join(c.id for c in comps) + ")")
    out.append("")
    return "\n".join(out)


# ------------------------------------------------------------------------------------------------
# convert_derivative_from_spherical_to_cartesian
# ------------------------------------------------------------------------------------------------
def _conv_deriv(fn):
    args = [a.arg for a in fn.args.args]
    if args != ["deriv_r", "deriv_theta", "deriv_phi", "r", "theta", "phi"]:
        raise Untranslatable("convert_derivative_from_spherical_to_cartesian: signature")
    env = {n: dict(kind="K", lean=n) for n in args}
    ex = Ex(env)
    stmts = []
    for s in _body(fn):
        if isinstance(s, ast.With):
            if not all(_src(i.context_expr).startswith("np.errstate(") for i in s.items):
                raise Untranslatable(f"convert_derivative…: {_src(s)[:60]}")
            stmts += s.body
        else:
            stmts.append(s)
    s0 = stmts[0]
    ok = (isinstance(s0, ast.Assign) and _src(s0.targets[0]) == "jacobian" and isinstance(s0.value, ast.Call)
          and _np_attr(s0.value.func, ("array",)) and len(s0.value.args) == 1 and not s0.value.keywords
          and isinstance(s0.value.args[0], ast.List) and len(s0.value.args[0].elts) == 3
          and all(isinstance(r, ast.List) and len(r.elts) == 3 for r in s0.value.args[0].elts))
    if not ok:
        raise Untranslatable(f"convert_derivative…: {_src(s0)[:80]}")
    rows = [[ex.asK(ex.tr(x)) for x in r.elts] for r in s0.value.args[0].elts]
    lines = ["  let jacobian : List (List K) :=", "    [" + ",\n     ".join("[" + ", ".join(r) + "]" for r in rows) + "]"]
    for s in stmts[1:-1]:
        if not (isinstance(s, ast.If) and not s.orelse):
            raise Untranslatable(f"convert_derivative…: {_src(s)[:80]}")
        inner = []
        for a in s.body:
            t = a.targets[0] if isinstance(a, ast.Assign) and len(a.targets) == 1 else None
            ok = (t is not None and isinstance(t, ast.Subscript) and _src(t.value) == "jacobian" and isinstance(t.slice, ast.Tuple)
                  and len(t.slice.elts) == 2 and _is_slice_all(t.slice.elts[0]) and isinstance(t.slice.elts[1], ast.Constant)
                  and t.slice.elts[1].value in (0, 1, 2))
            if not ok:
                raise Untranslatable(f"convert_derivative…: {_src(a)}")
            inner.append((t.slice.elts[1].value, ex.asK(ex.tr(a.value)), _src(a)))
        lines.append(f"  -- if {_src(s.test)}: " + "; ".join(x[2] for x in inner))
        lines.append("  let jacobian : List (List K) :=")
        lines.append(f"    if {ex.cond(s.test)} then")
        for j, v, _ in inner:
            lines.append(f"      let jacobian := setCol jacobian {j} {v}")
        lines.append("      jacobian")
        lines.append("    else jacobian")
    last = stmts[-1]
    if not (isinstance(last, ast.Return) and _src(last.value) == "jacobian.dot(np.array([deriv_r, deriv_theta, deriv_phi]))"):
        raise Untranslatable(f"convert_derivative…: {_src(last)}")
    out = ["/-- The matrix `jacobian` of `convert_derivative_from_spherical_to_cartesian` after the two threshold rules. -/",
           "def convJacobian [LT K] [DecidableLT K] (r theta phi : K) : List (List K) :="] + lines + ["  jacobian", ""]
    out += ["/-- `convert_derivative_from_spherical_to_cartesian`: `return jacobian.dot(np.array([deriv_r, deriv_theta, deriv_phi]))`. -/",
            "def convDeriv [LT K] [DecidableLT K] (deriv_r deriv_theta deriv_phi r theta phi : K) : List K :=",
            "  (convJacobian r theta phi).map fun row =>",
            "    match row with",
            "    | [a, b, c] => a * deriv_r + b * deriv_theta + c * deriv_phi",
            f"    | _ => {_nat(0)}",
            ""]
    return "\n".join(out)



# ------------------------------------------------------------------------------------------------
# generate_derivative_real_spherical_harmonics
# ------------------------------------------------------------------------------------------------
# The part of the loop body that involves SciPy's complex `sph_harm_y` stays hand-modelled (`dEntry` of
# Model/Harmonics.lean); its source text is pinned here: a change of any of these statements makes the
# translator raise (the hand model must then be looked at again).
PINNED_PHI = [
    "complex_expon = np.exp(-theta * 1j)",
    "sph_harm_m = fac * sph_harm_y(l_val, np.abs(int(m)) + 1, phi, theta) * sign_sin_phi ** (np.abs(int(m)) + 1) * np.sqrt(2) * (-1.0) ** float(m)",
    "if m >= 0:\n    if m < l_val:\n        output[1, i_output, :] += np.real(complex_expon * sph_harm_m)\n"
    "elif m < 0:\n    if m > -l_val:\n        output[1, i_output, :] += np.imag(complex_expon * sph_harm_m)",
    "if m == 0:\n    output[1, i_output, :] /= np.sqrt(2.0)",
]


def _deriv(fn, unbound_params):
    if [a.arg for a in fn.args.args] != ["l_max", "theta", "phi"]:
        raise Untranslatable("generate_derivative_real_spherical_harmonics: signature")
    b = _body(fn)
    what = "generate_derivative_real_spherical_harmonics"

    def need(cond, s):
        if not cond:
            raise Untranslatable(f"{what}: {_src(s)[:100]}")

    need(len(b) == 9, fn)
    need(_src(b[0]) == "num_pts = len(theta)", b[0])
    # output = np.zeros((2, int((l_max + 1) ** 2), num_pts), dtype=np.longdouble)
    s = b[1]
    ok = (isinstance(s, ast.Assign) and _src(s.targets[0]) == "output" and isinstance(s.value, ast.Call) and _np_attr(s.value.func, ("zeros",))
          and isinstance(s.value.args[0], ast.Tuple) and len(s.value.args[0].elts) == 3 and _src(s.value.args[0].elts[0]) == "2"
          and _src(s.value.args[0].elts[2]) == "num_pts")
    need(ok, s)
    env = {"l_max": dict(kind="nat", lean="l_max"), "theta": dict(kind="K", lean="theta"), "phi": dict(kind="K", lean="phi")}
    ex = Ex(env)
    nrows = ex.asNat(ex.tr(s.value.args[0].elts[1]))
    out_dt = _dtype_kw(s.value) or "float64"
    out_src = _src(s)
    need(_src(b[2]) == PINNED_PHI[0], b[2])
    # sign_sin_phi = np.where(np.sin(phi) < 0, -1.0, 1.0)
    s = b[3]
    need(isinstance(s, ast.Assign) and _src(s.targets[0]) == "sign_sin_phi", s)
    sign_txt, sign_src = ex.asK(ex.tr(s.value)), _src(s)
    # l_list = np.arange(l_max + 1)
    s = b[4]
    need(isinstance(s, ast.Assign) and _src(s.targets[0]) == "l_list" and isinstance(s.value, ast.Call) and _np_attr(s.value.func, ("arange",))
         and len(s.value.args) == 1 and not s.value.keywords, s)
    lstop = ex.asNat(ex.tr(s.value.args[0]))
    need(_src(b[5]) == "sph_harm_vals = generate_real_spherical_harmonics(l_max, theta, phi)", b[5])
    need(_src(b[6]) == "i_output = 0", b[6])
    loop = b[7]
    need(isinstance(loop, ast.For) and _src(loop.iter) == "l_list" and _src(loop.target) == "l_val" and not loop.orelse and len(loop.body) == 2, loop)
    need(_src(b[8]) == "return output", b[8])
    env["l_val"] = dict(kind="nat", lean="l_val")
    # m_values = [0] + [m for x in range(1, l_val + 1) for m in (x, -x)]
    s = loop.body[0]
    ok = (isinstance(s, ast.Assign) and _src(s.targets[0]) == "m_values" and isinstance(s.value, ast.BinOp) and isinstance(s.value.op, ast.Add)
          and isinstance(s.value.left, ast.List) and len(s.value.left.elts) == 1 and isinstance(s.value.right, ast.ListComp)
          and len(s.value.right.generators) == 2)
    need(ok, s)
    comp = s.value.right
    g1, g2 = comp.generators
    ok = (not g1.ifs and not g2.ifs and isinstance(g1.target, ast.Name) and isinstance(g2.target, ast.Name)
          and isinstance(comp.elt, ast.Name) and comp.elt.id == g2.target.id and isinstance(g2.iter, ast.Tuple)
          and isinstance(g1.iter, ast.Call) and isinstance(g1.iter.func, ast.Name) and g1.iter.func.id == "range" and len(g1.iter.args) == 2)
    need(ok, s)
    first = ex.asInt(ex.tr(s.value.left.elts[0]))
    ra, rb = ex.asNat(ex.tr(g1.iter.args[0])), ex.asNat(ex.tr(g1.iter.args[1]))
    xv = g1.target.id
    env[xv] = dict(kind="nat", lean=xv)
    items = ", ".join(ex.asInt(ex.tr(t)) for t in g2.iter.elts)
    env.pop(xv)
    mv_txt = f"[{first}] ++ (List.range' {ra} ({rb} - {ra})).flatMap (fun ({xv} : Nat) => [{items}])"
    mv_src = _src(s)
    inner = loop.body[1]
    need(isinstance(inner, ast.For) and _src(inner.iter) == "m_values" and _src(inner.target) == "m" and not inner.orelse, inner)
    st = []
    for x in inner.body:
        if isinstance(x, ast.With):
            need(all(_src(i.context_expr).startswith("np.errstate(") for i in x.items), x)
            st += x.body
        else:
            st.append(x)
    need(len(st) == 11, inner)
    env["m"] = dict(kind="int", lean="m")
    # sph_harm_degree = sph_harm_vals[l_val ** 2:(l_val + 1) ** 2, :]
    s = st[0]
    ok = (isinstance(s, ast.Assign) and _src(s.targets[0]) == "sph_harm_degree" and isinstance(s.value, ast.Subscript)
          and _src(s.value.value) == "sph_harm_vals" and isinstance(s.value.slice, ast.Tuple) and len(s.value.slice.elts) == 2
          and isinstance(s.value.slice.elts[0], ast.Slice) and s.value.slice.elts[0].step is None and _is_slice_all(s.value.slice.elts[1])
          and s.value.slice.elts[0].lower is not None and s.value.slice.elts[0].upper is not None)
    need(ok, s)
    lo = ex.asNat(ex.tr(s.value.slice.elts[0].lower))
    hi = ex.asNat(ex.tr(s.value.slice.elts[0].upper))
    deg_src = _src(s)
    env["sph_harm_degree"] = dict(kind="rows", lean="sph_harm_degree")
    # def index_m(m): return 2 * m - 1 if m > 0 else int(2 * np.fabs(m))
    s = st[1]
    need(isinstance(s, ast.FunctionDef) and s.name == "index_m" and [a.arg for a in s.args.args] == ["m"] and len(_body(s)) == 1
         and isinstance(_body(s)[0], ast.Return), s)
    ex2 = Ex({"m": dict(kind="int", lean="m")})
    im_txt = ex2.asInt(ex2.tr(_body(s)[0].value))
    im_src = _src(_body(s)[0])
    env["index_m"] = dict(kind="fnZ", lean="index_m", arity=1)
    # output[0, i_output, :] = -float(m) * sph_harm_degree[index_m(-m), :]
    s = st[2]
    need(isinstance(s, ast.Assign) and _src(s.targets[0]) == "output[0, i_output, :]", s)
    th_txt, th_src = ex.asK(ex.tr(s.value)), _src(s)
    # cot_tangent = 1.0 / np.tan(phi) ; cot_tangent[np.abs(np.tan(phi)) < 1e-10] = 0.0
    s = st[3]
    need(isinstance(s, ast.Assign) and _src(s.targets[0]) == "cot_tangent", s)
    cot1, cot1_src = ex.asK(ex.tr(s.value)), _src(s)
    s = st[4]
    need(isinstance(s, ast.Assign) and isinstance(s.targets[0], ast.Subscript) and _src(s.targets[0].value) == "cot_tangent"
         and isinstance(s.targets[0].slice, ast.Compare), s)
    cot2c, cot2v, cot2_src = ex.cond(s.targets[0].slice), ex.asK(ex.tr(s.value)), _src(s)
    env["cot_tangent"] = dict(kind="K", lean="(cot_tangent phi)")
    # fac = np.sqrt((l_val - np.abs(float(m))) * (l_val + np.abs(m) + 1))
    s = st[5]
    need(isinstance(s, ast.Assign) and _src(s.targets[0]) == "fac", s)
    fac_txt, fac_src = ex.asK(ex.tr(s.value)), _src(s)
    # output[1, i_output, :] = np.abs(float(m)) * cot_tangent * sph_harm_degree[index_m(m), :]
    s = st[6]
    need(isinstance(s, ast.Assign) and _src(s.targets[0]) == "output[1, i_output, :]", s)
    ph1_txt, ph1_src = ex.asK(ex.tr(s.value)), _src(s)
    for k, s in zip((1, 2, 3), st[7:10]):
        need(_src(s) == PINNED_PHI[k], s)
    need(_src(st[10]) == "i_output += 1", st[10])
    up = " ".join(f"({p} : K)" for p in unbound_params)
    ua = " ".join(unbound_params)
    pinned = "\n".join("    " + line for t in PINNED_PHI for line in t.split("\n"))
    out = f"""/-- `generate_derivative_real_spherical_harmonics`: `{im_src[7:]}` (`index_m(m)`). -/
def index_m (m : Int) : Int :=
  {im_txt}

/-- `generate_derivative_real_spherical_harmonics`: `{mv_src}`. -/
def m_values (l_val : Nat) : List Int :=
  {mv_txt}

/-- `generate_derivative_real_spherical_harmonics`: `{sign_src}`. -/
def sign_sin_phi [LT K] [DecidableLT K] (phi : K) : K :=
  {sign_txt}

/-- `generate_derivative_real_spherical_harmonics`: `{cot1_src}`; `{cot2_src}`. -/
def cot_tangent [LT K] [DecidableLT K] (phi : K) : K :=
  let cot_tangent : K := {cot1}
  let cot_tangent : K := if {cot2c} then {cot2v} else cot_tangent
  cot_tangent

/-- `generate_derivative_real_spherical_harmonics`: `{fac_src}`. -/
def fac (l_val : Nat) (m : Int) : K :=
  {fac_txt}

/-- `generate_derivative_real_spherical_harmonics`: `{deg_src}`. -/
def sphHarmDegree (sph_harm_vals : List K) (l_val : Nat) : List K :=
  (sph_harm_vals.drop {lo}).take ({hi} - {lo})

/-- `generate_derivative_real_spherical_harmonics`: first term of the phi-derivative,
`{ph1_src}`. -/
def dphiFirst [LT K] [DecidableLT K] (sph_harm_degree : List K) (phi : K) (m : Int) : K :=
  {ph1_txt}

/-- The mutable variables of the loop of `generate_derivative_real_spherical_harmonics` (one point):
`{out_src}` (`output[0]`, `output[1]`), `i_output = 0`. -/
structure DerivState (K : Type) where
  output_0 : List K
  output_1 : List K
  i_output : Nat

/-- `dtype` of `output`. -/
def derivOutputDType : DType := .{out_dt}

/-- Body of `for m in m_values:`.  `phi_rows l_val m` stands for the value `output[1, i_output, :]` has after the statements
that stay hand-modelled (SciPy's complex `sph_harm_y` inside; all of them store at `[1, i_output, :]`); their text is pinned by the translator:
```
    {ph1_src}
{pinned}
``` -/
def deriv_step_m (phi_rows : Nat → Int → K) (sph_harm_vals : List K) (l_val : Nat) (st : DerivState K) (m : Int) : DerivState K :=
  -- {deg_src}
  let sph_harm_degree : List K := sphHarmDegree sph_harm_vals l_val
  -- {th_src}
  let st : DerivState K := {{ st with output_0 := st.output_0.set st.i_output {th_txt} }}
  -- output[1, i_output, :] = …   (see above)
  let st : DerivState K := {{ st with output_1 := st.output_1.set st.i_output (phi_rows l_val m) }}
  -- i_output += 1
  let st : DerivState K := {{ st with i_output := st.i_output + 1 }}
  st

/-- Body of `for l_val in l_list:` (`l_list = np.arange({_src(b[4].value.args[0])})`). -/
def deriv_step_l_val (phi_rows : Nat → Int → K) (sph_harm_vals : List K) (st : DerivState K) (l_val : Nat) : DerivState K :=
  -- for m in m_values:
  let st : DerivState K := (m_values l_val).foldl (deriv_step_m phi_rows sph_harm_vals l_val) st
  st

/-- The loops of `generate_derivative_real_spherical_harmonics` given `sph_harm_vals`: `(output[0], output[1])`. -/
def derivRows (phi_rows : Nat → Int → K) (sph_harm_vals : List K) (l_max : Nat) : List K × List K :=
  let st : DerivState K := {{ output_0 := zerosK {nrows}, output_1 := zerosK {nrows}, i_output := 0 }}
  -- for l_val in l_list:
  let st : DerivState K := (List.range' 0 ({lstop} - 0)).foldl (deriv_step_l_val phi_rows sph_harm_vals) st
  (st.output_0, st.output_1)

/-- `generate_derivative_real_spherical_harmonics(l_max, theta, phi)` at one point:
`sph_harm_vals = generate_real_spherical_harmonics(l_max, theta, phi)`, then the loops. -/
def derivHarmonics {up} (phi_rows : Nat → Int → K) (l_max : Nat) (theta phi : K) : List K × List K :=
  derivRows phi_rows (ylm {ua} l_max theta phi) l_max
"""
    return out


# ------------------------------------------------------------------------------------------------
# generate_real_spherical_harmonics_scipy
# ------------------------------------------------------------------------------------------------
class ScipyTranslator:
    """Statement-by-statement translation of `generate_real_spherical_harmonics_scipy` (one point of the points axis).

    Value types: 'K' real scalar at the point, 'B' boolean at the point, 'N'/'L'/'Z' integers (as in `Ex`),
    'LK' list of reals along a non-point axis, 'LN' list of naturals, 'LKmap' an element-wise expression over such a list
    (base list, element text in the variable `i_`), 'TC' table of complex numbers, 'LC' list of complex, 'C' complex.
    Every statement with a shape requirement (broadcast, slice store, index) also contributes a conjunct to the `…_fits`
    definitions (NumPy raises where it is false)."""

    CZ = "(((0 : Nat) : K), ((0 : Nat) : K))"
    LEAN_TY = {"K": "K", "B": "Bool", "N": "Nat", "LK": "List K", "LC": "List (K × K)", "TC": "List (List (K × K))"}
    FN = "generate_real_spherical_harmonics_scipy"

    def __init__(self, fn, tree):
        self.fn = fn
        self.tree = tree
        self.env = {}      # name -> (type, lean text)
        self.kenv = {}     # the scalar part of it, for `Ex`
        self.ex = Ex(self.kenv)
        self.params = []   # extra parameters of the main definition: (lean name, lean type)
        self.dtypes = []
        self.defs = []
        self.guards = []
        self.reqs = []
        self.pts_axis = None
        self.state = {}    # state array -> junk parameter

    # -- environment ---------------------------------------------------------------------------
    def bind(self, name, ty, lean=None):
        lean = lean or name
        self.env[name] = (ty, lean)
        if ty == "K":
            self.kenv[name] = dict(kind="K", lean=lean, dtype="float64")
        elif ty == "N":
            self.kenv[name] = dict(kind="nat", lean=lean)
        else:
            self.kenv.pop(name, None)

    def need(self, cond, node, why=""):
        if not cond:
            raise Untranslatable(f"{self.FN}: {why + ': ' if why else ''}{_src(node)[:110]}")

    def asK(self, t):
        self.need(t[0] in ("K", "N", "L", "Z"), ast.Constant(value=t[1]), "used as a real scalar")
        return self.ex.asK(t)

    def asNat(self, t):
        return self.ex.asNat(t)

    def lst(self, t):
        """Text of a list-valued expression."""
        if t[0] == "LKmap":
            base, elem = t[1]
            return f"(({base}).map (fun (i_ : Nat) => {elem}))"
        if t[0] in ("LK", "LC", "LN"):
            return t[1]
        raise Untranslatable(f"{self.FN}: {t[1]} used as an array")

    # -- expressions ----------------------------------------------------------------------------
    def tr(self, e):
        if isinstance(e, ast.Name) and e.id in self.env and self.env[e.id][0] not in ("K", "N"):
            return self.env[e.id]
        if isinstance(e, ast.Compare):
            return ("B", f"decide {self.ex.cond(e)}")
        if isinstance(e, ast.BinOp) and isinstance(e.op, (ast.BitOr, ast.BitAnd)):
            a, b = self.tr(e.left), self.tr(e.right)
            self.need(a[0] == "B" and b[0] == "B", e, "| / & of non-boolean operands")
            return ("B", f"({a[1]} {'||' if isinstance(e.op, ast.BitOr) else '&&'} {b[1]})")
        if isinstance(e, ast.Attribute) and e.attr in ("real", "imag") and not _np_attr(e, ("real", "imag")):
            a = self.tr(e.value)
            part = ".1" if e.attr == "real" else ".2"
            proj = "Prod.fst" if e.attr == "real" else "Prod.snd"
            if a[0] == "C":
                return ("K", f"{a[1]}{part}")
            if a[0] == "LC":
                return ("LK", f"(({a[1]}).map {proj})")
            self.need(False, e, "real/imag of a non-complex value")
        if isinstance(e, ast.Call):
            t = self.call(e)
            if t is not None:
                return t
        if isinstance(e, ast.BinOp) and isinstance(e.op, (ast.Pow, ast.Mult)):
            a, b = self.tr(e.left), self.tr(e.right)
            scal = ("K", "N", "L", "Z")
            if isinstance(e.op, ast.Pow) and a[0] in scal and b[0] == "LN":
                return ("LKmap", (b[1], f"(npow {self.asK(a)} i_)"))   # float ** integer array, element-wise
            if isinstance(e.op, ast.Mult) and a[0] in scal and b[0] == "LKmap":
                return ("LKmap", (b[1][0], f"({self.asK(a)} * {b[1][1]})"))
            if isinstance(e.op, ast.Mult) and a[0] == "LC" and b[0] == "LK":
                self.reqs.append((f"({a[1]}).length = ({b[1]}).length", f"broadcast of {_src(e)}"))
                return ("LC", f"(List.zipWith cmulR {a[1]} {b[1]})")
            if a[0] not in scal or b[0] not in scal:
                self.need(False, e, "array arithmetic outside the handled shapes")
        if isinstance(e, ast.Subscript):
            t = self.subscript(e)
            if t is not None:
                return t
        return self.ex.tr(e)

    def slice_bounds(self, sl, length):
        """`a:b:c` with non-negative literal/natural parts -> (start, stop, step) as Lean naturals."""
        self.need(isinstance(sl, ast.Slice), sl, "not a slice")
        start = self.asNat(self.ex.tr(sl.lower)) if sl.lower is not None else "0"
        stop = self.asNat(self.ex.tr(sl.upper)) if sl.upper is not None else length
        step = self.asNat(self.ex.tr(sl.step)) if sl.step is not None else "1"
        if sl.step is not None:
            self.need(isinstance(sl.step, ast.Constant) and isinstance(sl.step.value, int) and sl.step.value >= 1, sl, "slice step")
        return start, stop, step

    def subscript(self, e):
        if not (isinstance(e.value, ast.Name) and e.value.id in self.env):
            return None
        ty, lean = self.env[e.value.id]
        idx = list(e.slice.elts) if isinstance(e.slice, ast.Tuple) else [e.slice]
        if ty == "TC":
            # table[l, :n]  -> the first n entries of row l
            self.need(len(idx) == 2 and isinstance(idx[1], ast.Slice) and idx[1].lower is None and idx[1].step is None
                      and idx[1].upper is not None, e, "subscript of the table")
            row = self.asNat(self.ex.tr(idx[0]))
            n = self.asNat(self.ex.tr(idx[1].upper))
            self.reqs.append((f"{row} < ({lean}).length", f"row index of {_src(e)}"))
            return ("LC", f"((({lean}).getD {row} []).take {n})")
        if ty == "LK":
            # v[:n, None] (a column, broadcast along the points axis) / v[:n]
            if len(idx) == 2:
                self.need(isinstance(idx[1], ast.Constant) and idx[1].value is None, e, "second index")
                idx = idx[:1]
            self.need(len(idx) == 1 and isinstance(idx[0], ast.Slice) and idx[0].lower is None and idx[0].step is None
                      and idx[0].upper is not None, e, "subscript of a real array")
            return ("LK", f"(({lean}).take {self.asNat(self.ex.tr(idx[0].upper))})")
        if ty == "LC":
            self.need(len(idx) == 1, e, "subscript of a complex array")
            i = idx[0]
            if isinstance(i, ast.Slice):
                self.need(i.upper is None and i.step is None and i.lower is not None, e, "slice of a complex array")
                return ("LC", f"(({lean}).drop {self.asNat(self.ex.tr(i.lower))})")
            k = self.asNat(self.ex.tr(i))
            self.reqs.append((f"{k} < ({lean}).length", f"index of {_src(e)}"))
            return ("C", f"(({lean}).getD {k} {self.CZ})")
        return None

    def call(self, e):
        f = e.func
        if isinstance(f, ast.Name) and f.id == "sph_harm_y_all":
            imported = any(isinstance(n, ast.ImportFrom) and n.module == "scipy.special" and any(a.name == "sph_harm_y_all" and a.asname is None for a in n.names)
                           for n in self.tree.body)
            self.need(imported and len(e.args) == 4 and not e.keywords, e, "sph_harm_y_all is not scipy.special's / arguments")
            a = [self.tr(x) for x in e.args]
            return ("TC", f"(sph_harm_y_all {self.asNat(a[0])} {self.asNat(a[1])} {self.asK(a[2])} {self.asK(a[3])})")
        name = _np_attr(f, ("where", "ones", "arange"))
        if name == "where":
            self.need(len(e.args) == 3 and not e.keywords, e)
            c, x, y = (self.tr(a) for a in e.args)
            self.need(c[0] == "B", e, "condition of np.where")
            return ("K", f"(if {c[1]} then {self.asK(x)} else {self.asK(y)})")
        if name == "ones":
            self.need(len(e.args) == 1 and all(kw.arg == "dtype" for kw in e.keywords), e)
            self.last_dtype = _dtype_kw(e) or "float64"
            return ("LK", f"(onesK {self.asNat(self.ex.tr(e.args[0]))})")
        if name == "arange":
            self.need(len(e.args) == 2 and not e.keywords, e)
            a, b = (self.asNat(self.ex.tr(x)) for x in e.args)
            return ("LN", f"List.range' {a} ({b} - {a})")
        return None

    def cond(self, test):
        """Condition of an `if` statement."""
        if isinstance(test, ast.Call) and _np_attr(test.func, ("any",)) and len(test.args) == 1 and not test.keywords \
                and isinstance(test.args[0], ast.Name) and self.env.get(test.args[0].id, ("",))[0] == "B":
            # a reduction over the points axis: a parameter of the one-point definition
            p = f"any_{test.args[0].id}"
            if (p, "Bool") not in self.params:
                self.params.append((p, "Bool"))
                self.any_of = getattr(self, "any_of", {})
                self.any_of[p] = self.env[test.args[0].id][1]
            return p
        return self.ex.cond(test)

    # -- statements ------------------------------------------------------------------------------
    def drain(self, pad, flines):
        for req, why in self.reqs:
            flines.append(f"{pad}-- {why}")
            flines.append(f"{pad}let fits_ : Bool := fits_ && decide ({req})")
        self.reqs = []

    def targets(self, stmts):
        out = []
        for s in stmts:
            self.need(isinstance(s, ast.Assign) and len(s.targets) == 1, s, "statement inside a conditional")
            t = s.targets[0]
            n = t.id if isinstance(t, ast.Name) else t.value.id if isinstance(t, ast.Subscript) and isinstance(t.value, ast.Name) else None
            self.need(n is not None and n in self.env, s, "assignment target")
            if n not in out:
                out.append(n)
        return out

    def block(self, stmts, ind):
        """-> (lines of the value definition, lines of the `fits` definition)"""
        v, f = [], []
        pad = " " * ind
        for s in stmts:
            src1 = _src(s).split("\n")[0]
            if isinstance(s, ast.Assign) and len(s.targets) == 1 and isinstance(s.targets[0], ast.Name):
                name = s.targets[0].id
                val = s.value
                if _src(val) in ("len(theta)", "len(phi)"):
                    self.pts_axis = name
                    v.append(f"{pad}-- {src1}   (length of the points axis)")
                    continue
                if isinstance(val, ast.Call) and _np_attr(val.func, ("asarray",)) and len(val.args) == 1 and not val.keywords \
                        and _src(val.args[0]) == name and self.env.get(name, ("",))[0] == "K":
                    v.append(f"{pad}-- {src1}")
                    continue
                if isinstance(val, ast.Call) and _np_attr(val.func, ("empty",)):
                    self.need(len(val.args) == 1 and isinstance(val.args[0], ast.Tuple) and len(val.args[0].elts) == 2
                              and all(kw.arg == "dtype" for kw in val.keywords), s, "np.empty")
                    rows, pts = val.args[0].elts
                    self.need(self.pts_axis is not None and _src(pts) == self.pts_axis, s, "last axis is not the points axis")
                    self.need(name not in self.env, s, "rebinding")
                    self.dtypes.append((name, _dtype_kw(val) or "float64"))
                    junk = f"{name}0"
                    self.params.insert(0, (junk, "K"))
                    self.state[name] = junk
                    line = f"{pad}let {name} : List K := emptyK {self.asNat(self.ex.tr(rows))} {junk}"
                    self.bind(name, "LK")
                    v += [f"{pad}-- {src1}", line]
                    f += [f"{pad}-- {src1}", line]
                    continue
                self.last_dtype = None
                t = self.tr(val)
                if t[0] in ("L", "Z"):
                    t = ("N", self.asNat(t))
                if t[0] == "LKmap":
                    t = ("LK", self.lst(t))
                self.need(t[0] in self.LEAN_TY, s, f"value of type {t[0]}")
                if name in self.env:
                    self.need(self.env[name][0] == t[0], s, "rebinding with another type")
                if self.last_dtype:
                    self.dtypes.append((name, self.last_dtype))
                line = f"{pad}let {name} : {self.LEAN_TY[t[0]]} := {t[1]}"
                v += [f"{pad}-- {src1}", line]
                f.append(f"{pad}-- {src1}")
                self.drain(pad, f)
                f.append(line)
                self.bind(name, t[0])
                continue
            if isinstance(s, ast.Assign) and len(s.targets) == 1 and isinstance(s.targets[0], ast.Subscript) \
                    and isinstance(s.targets[0].value, ast.Name):
                tgt = s.targets[0]
                name = tgt.value.id
                self.need(self.env.get(name, ("",))[0] == "LK", s, "store into something that is not a real array")
                val = self.tr(s.value)
                idx = list(tgt.slice.elts) if isinstance(tgt.slice, ast.Tuple) else [tgt.slice]
                self.need(len(idx) == 1, s, "store index")
                if isinstance(idx[0], ast.Slice):
                    self.need(val[0] in ("LK", "LKmap"), s, "slice store of a non-array")
                    vt = self.lst(val)
                    a, b, c = self.slice_bounds(idx[0], f"{name}.length")
                    self.reqs.append((f"sliceCount {name}.length {a} {b} {c} = ({vt}).length", f"shape of the store {src1}"))
                    line = f"{pad}let {name} : List K := setSlice {name} {a} {b} {c} {vt}"
                else:
                    i = self.asNat(self.ex.tr(idx[0]))
                    self.reqs.append((f"{i} < {name}.length", f"index of the store {src1}"))
                    line = f"{pad}let {name} : List K := {name}.set {i} {self.asK(val)}"
                v += [f"{pad}-- {src1}", line]
                f.append(f"{pad}-- {src1}")
                self.drain(pad, f)
                f.append(line)
                continue
            if isinstance(s, ast.If):
                self.need(not s.orelse, s, "else branch")
                c = self.cond(s.test)
                tg = self.targets(s.body)
                tys = [self.LEAN_TY[self.env[n][0]] for n in tg]
                saved = dict(self.env), dict(self.kenv)
                bv, bf = self.block(s.body, ind + 4)
                self.need(all(self.env[n][0] == saved[0][n][0] for n in tg), s, "a branch changes the type of a variable")
                self.env, self.kenv = saved
                self.ex.env = self.kenv
                tup = tg[0] if len(tg) == 1 else "(" + ", ".join(tg) + ")"
                ty = tys[0] if len(tg) == 1 else " × ".join(tys)
                var = tg[0] if len(tg) == 1 else "upd_"
                head = [f"{pad}-- {src1}", f"{pad}let {var} : {ty} :=", f"{pad}  if {c} then"]
                tail = [f"{pad}    {tup}", f"{pad}  else", f"{pad}    {tup}"]
                proj = []
                if len(tg) > 1:
                    # right-nested pairs: component k is .2 (k times) then .1, the last one .2 (k-1 times) then .2
                    proj = []
                    for k, (n, t) in enumerate(zip(tg, tys)):
                        path = ".2" * k + (".1" if k < len(tg) - 1 else "")
                        proj.append(f"{pad}let {n} : {t} := upd_{path}")
                v += head + bv + tail + proj
                f += [f"{pad}-- {src1}", f"{pad}let fits_ : Bool :=", f"{pad}  if {c} then"] + bf + [f"{pad}    fits_", f"{pad}  else", f"{pad}    fits_"]
                f += head[1:] + bv + tail + proj
                continue
            if isinstance(s, ast.For):
                name, rng, args, st = self.loop(s)
                v += [f"{pad}-- {src1}", f"{pad}let {st} : List K := ({rng}).foldl ({' '.join([name] + args)}) {st}"]
                f += [f"{pad}-- {src1}",
                      f"{pad}let fits_ : Bool := fits_ && ({rng}).all (fun ({s.target.id} : Nat) => {' '.join([name + '_fits'] + args + [st, s.target.id])})",
                      f"{pad}let {st} : List K := ({rng}).foldl ({' '.join([name] + args)}) {st}"]
                continue
            self.need(False, s, "statement kind")
        return v, f

    def loop(self, s):
        self.need(not s.orelse and isinstance(s.target, ast.Name) and s.target.id not in self.env, s, "loop header")
        it = s.iter
        self.need(isinstance(it, ast.Call) and isinstance(it.func, ast.Name) and it.func.id == "range" and 1 <= len(it.args) <= 2
                  and not it.keywords, s, "loop range")
        a = self.asNat(self.ex.tr(it.args[0])) if len(it.args) == 2 else "0"
        b = self.asNat(self.ex.tr(it.args[-1]))
        rng = f"List.range' {a} ({b} - {a})"
        var = s.target.id
        stored = [n.targets[0].value.id for n in ast.walk(s) if isinstance(n, ast.Assign) and isinstance(n.targets[0], ast.Subscript)
                  and isinstance(n.targets[0].value, ast.Name)]
        states = list(dict.fromkeys(stored))
        self.need(len(states) == 1 and states[0] in self.state, s, "the loop must store into exactly one array created before it")
        st = states[0]
        local = [n.targets[0].id for n in ast.walk(s) if isinstance(n, ast.Assign) and isinstance(n.targets[0], ast.Name)]
        self.need(not any(n in self.env for n in local), s, "the loop rebinds a variable of the enclosing scope")
        used = [n for n in dict.fromkeys(x for b in s.body for x in _names_loaded(b)) if n in self.env and n != st]
        params = [(n, self.LEAN_TY[self.env[n][0]]) for n in self.env if n in used]
        saved = dict(self.env), dict(self.kenv)
        self.bind(var, "N")
        bv, bf = self.block(s.body, 2)
        self.env, self.kenv = saved
        self.ex.env = self.kenv
        self.loop_locals = getattr(self, "loop_locals", []) + local + [var]
        name = f"step_{var}"
        sig = " ".join(f"({n} : {t})" for n, t in params)
        hdr = f"`for {var} in {_src(s.iter)}:` of `{self.FN}`"
        self.defs.append("\n".join([f"/-- Body of {hdr}. -/",
                                    f"def {name} {sig} ({st} : List K) ({var} : Nat) : List K :="] + bv + [f"  {st}", ""]))
        self.defs.append("\n".join([f"/-- Shape requirements of the statements in the body of {hdr} (NumPy raises where one of them is false). -/",
                                    f"def {name}_fits {sig} ({st} : List K) ({var} : Nat) : Bool :=", "  let fits_ : Bool := true"] + bf + ["  fits_", ""]))
        return name, rng, [n for n, _ in params], st

    def guard(self, s, k):
        """`if <cond>: raise ValueError(…)` before any computation -> a Boolean definition."""
        self.need(len(s.body) == 1 and isinstance(s.body[0], ast.Raise) and not s.orelse and isinstance(s.body[0].exc, ast.Call)
                  and _src(s.body[0].exc.func) == "ValueError", s, "guard")
        params = []

        def operand(e):
            if isinstance(e, ast.Name) and e.id == "l_max":
                p = ("l_max", "Int")
                txt, ty = "l_max", "Z"
            elif isinstance(e, ast.Attribute) and isinstance(e.value, ast.Name) and e.value.id in ("theta", "phi") and e.attr in ("shape", "ndim"):
                p = (f"{e.value.id}_{e.attr}", "List Nat" if e.attr == "shape" else "Nat")
                txt, ty = p[0], "S" if e.attr == "shape" else "N"
            elif isinstance(e, ast.Constant) and isinstance(e.value, int) and not isinstance(e.value, bool) and e.value >= 0:
                return str(e.value), "L"
            else:
                self.need(False, e, "operand of a guard")
            if p not in params:
                params.append(p)
            return txt, ty

        def cond(e):
            if isinstance(e, ast.BoolOp):
                return "(" + (" ∧ " if isinstance(e.op, ast.And) else " ∨ ").join(cond(x) for x in e.values) + ")"
            self.need(isinstance(e, ast.Compare) and len(e.ops) == 1, e, "guard condition")
            (a, ta), (b, tb) = operand(e.left), operand(e.comparators[0])
            sym = {ast.Eq: "=", ast.NotEq: "≠", ast.Lt: "<", ast.LtE: "≤", ast.Gt: ">", ast.GtE: "≥"}.get(type(e.ops[0]))
            self.need(sym is not None, e, "comparison of a guard")
            if "S" in (ta, tb):
                self.need(ta == tb == "S" and sym in ("=", "≠"), e, "comparison of shapes")
            if "Z" in (ta, tb):
                a, b = (f"({x} : Int)" if t == "L" else x for x, t in ((a, ta), (b, tb)))
            return f"({a} {sym} {b})"

        c = cond(s.test)
        sig = " ".join(f"({n} : {t})" for n, t in params)
        self.guards.append(f"/-- `{_src(s.test)}` → `raise ValueError(…)`. -/\ndef rejects_{k} {sig} : Bool := decide {c}\n")

    def run(self):
        fn = self.fn
        self.need([a.arg for a in fn.args.args] == ["l_max", "theta", "phi"] and not fn.args.defaults and not fn.args.vararg
                  and not fn.args.kwarg, fn, "signature")
        for n in ast.walk(fn):
            if isinstance(n, (ast.AugAssign, ast.AnnAssign, ast.Delete, ast.Global, ast.Nonlocal, ast.While, ast.Try, ast.With, ast.Lambda,
                              ast.NamedExpr, ast.Starred, ast.ListComp, ast.GeneratorExp, ast.Yield, ast.FunctionDef)) and n is not fn:
                self.need(False, n, f"statement/expression kind {type(n).__name__}")
        body = _body(fn)
        k = 0
        rest = []
        for s in body:
            if isinstance(s, ast.If) and len(s.body) == 1 and isinstance(s.body[0], ast.Raise):
                self.need(all(isinstance(r, ast.Pass) or (isinstance(r, ast.Assign) and _np_attr(getattr(r.value, "func", None), ("asarray",)))
                              for r in rest), s, "guard after the computation started")
                self.guard(s, k)
                k += 1
                rest.append(ast.Pass())
            else:
                rest.append(s)
        rest = [s for s in rest if not isinstance(s, ast.Pass)]
        self.need(isinstance(rest[-1], ast.Return) and isinstance(rest[-1].value, ast.Name), fn, "the routine does not end with `return <array>`")
        self.bind("l_max", "N")
        self.bind("theta", "K")
        self.bind("phi", "K")
        v, f = self.block(rest[:-1], 2)
        ret = rest[-1].value.id
        self.need(ret in self.state, rest[-1], "return value")
        sig = " ".join(f"({n} : {t})" for n, t in self.params)
        out = [f"/-- Arrays of `{self.FN}` whose storage type is recorded. -/", "inductive Var where"]
        out += [f"  | {n}" for n, _ in self.dtypes] + ["  deriving DecidableEq, Repr", ""]
        out += ["/-- The `dtype` each of them is created with, as written in the source. -/", "def dtype : Var → DType"]
        out += [f"  | .{n} => .{dt}" for n, dt in self.dtypes] + [""]
        out += self.guards
        out += ["section generic",
                "variable {K : Type} [Add K] [Sub K] [Mul K] [Div K] [Neg K] [NatCast K] [Elem K] [LT K] [DecidableLT K]", ""]
        out += self.defs
        anys = "; ".join(f"`{p}` stands for `np.any` of `{t}` over the whole points axis (a reduction: the caller's fact, `True` whenever it is "
                         f"`True` at this point)" for p, t in getattr(self, "any_of", {}).items())
        junk = "; ".join(f"`{j}` is the unspecified content of `np.empty` (`{n}`)" for n, j in self.state.items())
        out += [f"/-- `{self.FN}(l_max, theta, phi)` at one point of the points axis (after the guards). {junk}; {anys}. -/",
                f"def ylm_scipy {sig} (l_max : Nat) (theta phi : K) : List K :="] + v + [f"  -- return {ret}", f"  {ret}", ""]
        out += [f"/-- Shape requirements of the statements of `{self.FN}` (NumPy raises where one of them is false); inside the loop they are "
                f"evaluated with the array as it is before the loop (stores do not change lengths). -/",
                f"def ylm_scipy_fits {sig} (l_max : Nat) (theta phi : K) : Bool :=", "  let fits_ : Bool := true"] + f + ["  fits_", ""]
        out += ["end generic", ""]
        return "\n".join(out)


def render_scipy() -> str:
    tree = ast.parse((SRC / "utils.py").read_text())
    fns = {n.name: n for n in tree.body if isinstance(n, ast.FunctionDef)}
    if ScipyTranslator.FN not in fns:
        raise Untranslatable(f"utils.{ScipyTranslator.FN} not found")
    body = ScipyTranslator(fns[ScipyTranslator.FN], tree).run()
    return "\n".join([
        HEADER.format(name="harmonics", source=f"src/grid/utils.py ({ScipyTranslator.FN})"),
        "import GridVerif.Model.Elem\nimport GridVerif.Model.HarmonicsGenBase\nimport GridVerif.Model.HarmonicsSciPy\n\n"
        "set_option linter.unusedVariables false\n",
        "namespace GridVerif.Gen.HarmonicsScipy\nopen GridVerif.GenBase GridVerif.SciPyBase\n",
        body,
        "end GridVerif.Gen.HarmonicsScipy\n",
    ])


# ------------------------------------------------------------------------------------------------
# effects / access certificate of the six routines (round 6) -> Gen/HarmonicsEffects.lean
# ------------------------------------------------------------------------------------------------
C08_FUNCTIONS = ("generate_real_spherical_harmonics_scipy", "generate_real_spherical_harmonics", "generate_derivative_real_spherical_harmonics",
                 "solid_harmonics", "convert_derivative_from_spherical_to_cartesian", "convert_cart_to_sph")
_VIEW_CALLS = ("asarray", "asanyarray", "ascontiguousarray", "asfortranarray", "ravel", "reshape", "squeeze", "transpose", "atleast_1d", "atleast_2d",
               "broadcast_to", "swapaxes", "moveaxis", "real", "imag", "array", "require", "expand_dims")
_VIEW_METHODS = ("reshape", "ravel", "view", "squeeze", "transpose", "swapaxes", "astype", "real", "imag")
_VIEW_ATTRS = ("T", "real", "imag", "flat", "base")
_MUTATORS = ("sort", "fill", "resize", "put", "itemset", "partition", "setfield", "byteswap")


def _effects_of(fn):
    """(may-alias-an-argument names, names written in place, partial accesses of the points axis) of one function, from its AST.
    Flow-insensitive and conservative: a name bound to a view-producing expression of an aliasing name (a subscript, `.T`, `np.asarray`
    with or without `dtype=` - NumPy returns the argument itself when the type already matches - reshape, ravel, …) aliases; in-place writes
    are subscript stores, augmented assignments, `out=` keywords and mutating methods."""
    params = [a.arg for a in fn.args.args]
    alias = set(params)

    def may_view(e):
        if isinstance(e, ast.Name):
            return e.id in alias
        if isinstance(e, ast.Attribute):
            return e.attr in _VIEW_ATTRS and may_view(e.value)
        if isinstance(e, ast.Subscript):
            return may_view(e.value)
        if isinstance(e, ast.IfExp):
            return may_view(e.body) or may_view(e.orelse)
        if isinstance(e, (ast.Tuple, ast.List)):
            return any(may_view(x) for x in e.elts)
        if isinstance(e, ast.Call):
            f = e.func
            if _np_attr(f, _VIEW_CALLS) and e.args:
                return may_view(e.args[0])
            if isinstance(f, ast.Attribute) and f.attr in _VIEW_METHODS:
                return may_view(f.value)
        return False

    assigns = [n for n in ast.walk(fn) if isinstance(n, ast.Assign)]
    changed = True
    while changed:
        changed = False
        for a in assigns:
            if may_view(a.value):
                for t in a.targets:
                    for nm in ([t] if isinstance(t, ast.Name) else list(t.elts) if isinstance(t, (ast.Tuple, ast.List)) else []):
                        if isinstance(nm, ast.Name) and nm.id not in alias:
                            alias.add(nm.id)
                            changed = True
    written = []

    def base(e):
        while isinstance(e, (ast.Subscript, ast.Attribute)):
            e = e.value
        return e.id if isinstance(e, ast.Name) else _src(e)

    for n in ast.walk(fn):
        if isinstance(n, ast.Assign):
            for t in n.targets:
                for x in ([t] if not isinstance(t, (ast.Tuple, ast.List)) else t.elts):
                    if isinstance(x, (ast.Subscript, ast.Attribute)):
                        written.append(base(x))
        elif isinstance(n, ast.AugAssign):
            written.append(base(n.target))
        elif isinstance(n, ast.Call):
            for kw in n.keywords:
                if kw.arg == "out":
                    written.append(base(kw.value))
            if isinstance(n.func, ast.Attribute) and n.func.attr in _MUTATORS:
                written.append(base(n.func.value))
            if isinstance(n.func, ast.Attribute) and n.func.attr == "at" and n.args:   # np.add.at(x, …)
                written.append(base(n.args[0]))
    written = list(dict.fromkeys(written))
    # the points axis: the 1-D angle arguments and every array whose creation shape ends with the number of points
    counts = {a.targets[0].id for a in assigns if isinstance(a.targets[0], ast.Name) and _src(a.value) in ("len(theta)", "len(phi)")}
    angle = {p for p in params if p in ("theta", "phi")} if counts or set(params) >= {"theta", "phi"} and "r" not in params else set()
    ndim = {}
    shape_nodes = set()
    for a in assigns:
        v = a.value
        if isinstance(a.targets[0], ast.Name) and isinstance(v, ast.Call) and _np_attr(v.func, ("zeros", "empty", "ones")) and v.args and isinstance(v.args[0], ast.Tuple) \
                and v.args[0].elts and isinstance(v.args[0].elts[-1], ast.Name) and v.args[0].elts[-1].id in counts:
            ndim[a.targets[0].id] = len(v.args[0].elts)
            shape_nodes.add(id(v.args[0].elts[-1]))
    partial = []
    for n in ast.walk(fn):
        if isinstance(n, ast.Subscript) and isinstance(n.value, ast.Name):
            idx = list(n.slice.elts) if isinstance(n.slice, ast.Tuple) else [n.slice]
            if n.value.id in angle:
                partial.append(_src(n))
            elif n.value.id in ndim and len(idx) == ndim[n.value.id] and not _is_slice_all(idx[-1]):
                partial.append(_src(n))
        elif isinstance(n, ast.Name) and n.id in counts and isinstance(n.ctx, ast.Load) and id(n) not in shape_nodes:
            partial.append(f"use of the number of points `{n.id}` outside an array shape (line {n.lineno - fn.lineno})")
    return sorted(alias), written, list(dict.fromkeys(partial))


def render_effects() -> str:
    tree = ast.parse((SRC / "utils.py").read_text())
    fns = {n.name: n for n in tree.body if isinstance(n, ast.FunctionDef)}
    q = lambda xs: "[" + ", ".join('"' + x.replace("\\", "\\\\").replace('"', '\\"') + '"' for x in xs) + "]"
    rows = []
    for name in C08_FUNCTIONS:
        if name not in fns:
            raise Untranslatable(f"utils.{name} not found")
        al, wr, pa = _effects_of(fns[name])
        rows.append(f'  {{ name := "{name}",\n    mayAliasArgument := {q(al)},\n    writtenInPlace := {q(wr)},\n    partialPointsAccess := {q(pa)} }}')
    return "\n".join([
        HEADER.format(name="harmonics", source="src/grid/utils.py (the six routines of C08: which names may alias an argument, which are written in place, "
                      "which accesses address only a part of the points axis)"),
        "namespace GridVerif.Gen.HarmonicsEffects\n",
        "/-- What the AST of one routine shows: the names that may refer to (a view of) an argument, the names written in place (subscript stores,\n"
        "augmented assignments, `out=`, mutating methods), and the subscripts / uses of the point count that address only a part of the points axis. -/",
        "structure Routine where\n  name : String\n  mayAliasArgument : List String\n  writtenInPlace : List String\n  partialPointsAccess : List String\n  deriving Repr\n",
        "def routines : List Routine := [\n" + ",\n".join(rows) + "]\n",
        "end GridVerif.Gen.HarmonicsEffects\n",
    ])


# ------------------------------------------------------------------------------------------------
def render() -> str:
    tree = ast.parse((SRC / "utils.py").read_text())
    fns = {n.name: n for n in tree.body if isinstance(n, ast.FunctionDef)}
    for need in ("generate_real_spherical_harmonics", "generate_derivative_real_spherical_harmonics", "solid_harmonics",
                 "convert_cart_to_sph", "convert_derivative_from_spherical_to_cartesian"):
        if need not in fns:
            raise Untranslatable(f"utils.{need} not found")
    y = YlmTranslator(fns["generate_real_spherical_harmonics"])
    ytext = y.run()
    stext, sdt = _solid(fns["solid_harmonics"], [p for _, p in y.unbound])
    dvtext = _deriv(fns["generate_derivative_real_spherical_harmonics"], [p for _, p in y.unbound])
    ctext = _cart_to_sph(fns["convert_cart_to_sph"])
    dtext = _conv_deriv(fns["convert_derivative_from_spherical_to_cartesian"])
    parts = [
        HEADER.format(name="harmonics", source="src/grid/utils.py (generate_real_spherical_harmonics, generate_derivative_real_spherical_harmonics, solid_harmonics, "
                      "convert_cart_to_sph, convert_derivative_from_spherical_to_cartesian)"),
        "import GridVerif.Model.Elem\nimport GridVerif.Model.HarmonicsGenBase\n\nset_option linter.unusedVariables false\n",
        "namespace GridVerif.Gen.Harmonics\nopen GridVerif.GenBase\n",
        ytext,
        dvtext,
        stext,
        f"/-- `dtype` of the `degrees` array of `solid_harmonics`. -/\ndef solidDegreesDType : DType := .{sdt}\n",
        ctext,
        dtext,
        "end generic\n\nend GridVerif.Gen.Harmonics\n",
    ]
    return "\n".join(parts)


def generate():
    # the effects / access certificate is a plain AST analysis: it is written first, so that a source the statement-wise translators
    # below cannot carry still regenerates it (its theorems, Props/C08/Effects.lean, are then re-decided on the changed source)
    c0, d0 = write_if_changed("HarmonicsEffects.lean", render_effects())
    t1, t2 = render(), render_scipy()   # both before anything is written: a routine that cannot be carried leaves both files as they are
    c1, d1 = write_if_changed("Harmonics.lean", t1)
    c2, d2 = write_if_changed("HarmonicsScipy.lean", t2)
    return c0 or c1 or c2, d0 + d1 + d2


if __name__ == "__main__":
    print(generate()[1])

"""Translator for C20: src/grid/*.py  ->  Gen/Effects.lean  (effects IR, one Prog per function).

Per top-level function / method (nested functions and lambdas are inlined into their
parent, which is sound because the analysis is flow-insensitive) the translator emits

    assign x ys cb     x may refer to (a view of) the object of any y in ys; cb: or to any
                       caller-owned object (result of a user callback / unclassified callable)
    inplace x          the object x refers to is modified in place

Parameters of inlined nested functions receive `assign p [] true` (anything).  Exception: a
parameter with a default value that no call expression of the enclosing function can override
(the closure idiom `lambda …, func=f: func(…)`) is bound to what its default may alias; the
condition is stated in `FuncTranslator.pinned_defaults`, its shape part is re-decided by the Lean
kernel on the certificate rows `Gen.Effects.pins` (`GridVerif.C20.all_pins_ok`) and proved
sufficient (`GridVerif.C20.enter_pinned`, `runC_sound`); `pinned_selftest` exercises every clause.

The classification of expressions (which NumPy/SciPy/builtin calls return a new object,
which return views, which mutate an argument) is the table below; it is part of the
trusted base and is validated dynamically by harness/props/c20.py.  Whatever is not in a
table is treated conservatively: the result may alias every argument (and the receiver).
"""
from __future__ import annotations

import ast
import re
from pathlib import Path

from ..common import SRC
from .util import HEADER, write_if_changed

MODULES = [
    "angular", "atomgrid", "basegrid", "becke", "coulomb", "cubic", "hirshfeld", "molgrid",
    "ngrid", "ode", "onedgrid", "periodicgrid", "poisson", "robust_poisson", "rtransform", "utils",
]

# attributes whose value is an immutable scalar/tuple (never an alias of array data)
IMMUT_ATTRS = {"shape", "size", "ndim", "dtype", "nbytes", "itemsize", "name", "__name__", "__class__"}
# attributes that are views of the receiver
# (everything else on a non-self object is treated as a view, too: conservative)

# functions (dotted names as written in the source) returning a NEW object that does not
# alias its arguments (NumPy: documented to copy / to compute a new array)
FRESH_FUNCS = {
    # builtins
    "len", "int", "float", "bool", "str", "abs", "round", "min", "max", "sum", "range", "isinstance",
    "type", "repr", "hasattr", "callable", "any", "all", "divmod", "pow", "id", "hash", "format",
    "print", "open", "ValueError", "TypeError", "NotImplementedError", "RuntimeError", "IndexError",
    "KeyError", "AttributeError", "AssertionError", "Warning", "UserWarning",
    # numpy constructors / copying functions
    "np.array", "np.zeros", "np.ones", "np.empty", "np.full", "np.zeros_like", "np.ones_like",
    "np.empty_like", "np.full_like", "np.arange", "np.linspace", "np.eye", "np.identity", "np.diag",
    "np.copy", "np.concatenate", "np.vstack", "np.hstack", "np.stack", "np.column_stack", "np.dstack",
    "np.append", "np.delete", "np.insert", "np.tile", "np.repeat", "np.kron", "np.outer", "np.dot",
    "np.matmul", "np.einsum", "np.tensordot", "np.cross", "np.inner", "np.meshgrid_copy",
    "np.unique", "np.sort", "np.argsort", "np.where", "np.nonzero", "np.argwhere", "np.searchsorted",
    "np.cumsum", "np.cumprod", "np.diff", "np.sum", "np.prod", "np.mean", "np.max", "np.min",
    "np.amax", "np.amin", "np.argmax", "np.argmin", "np.any", "np.all", "np.isnan", "np.isinf",
    "np.isfinite", "np.isclose", "np.allclose", "np.array_equal", "np.count_nonzero", "np.trace",
    "np.abs", "np.absolute", "np.sign", "np.sqrt", "np.exp", "np.log", "np.log10", "np.power",
    "np.sin", "np.cos", "np.tan", "np.arcsin", "np.arccos", "np.arctan", "np.arctan2", "np.sinh",
    "np.cosh", "np.tanh", "np.arcsinh", "np.arccosh", "np.arctanh", "np.floor", "np.ceil", "np.rint",
    "np.round", "np.around", "np.clip", "np.maximum", "np.minimum", "np.add", "np.subtract",
    "np.multiply", "np.divide", "np.mod", "np.floor_divide", "np.negative", "np.square", "np.cbrt",
    "np.hypot", "np.deg2rad", "np.rad2deg", "np.nan_to_num", "np.logical_and", "np.logical_or",
    "np.logical_not", "np.equal", "np.not_equal", "np.less", "np.greater", "np.less_equal",
    "np.greater_equal", "np.take", "np.compress", "np.roll", "np.flip", "np.fliplr", "np.flipud_copy",
    "np.pad", "np.polyval", "np.finfo", "np.iinfo", "np.float64", "np.int64", "np.int32", "np.intp",
    "np.printoptions", "np.errstate", "np.isscalar", "np.issubdtype", "np.result_type", "np.shape",
    "np.size", "np.ndim", "np.load", "np.save", "np.savez", "np.loadtxt", "np.savetxt", "np.fromstring",
    "np.linalg.norm", "np.linalg.svd", "np.linalg.eigh", "np.linalg.eig", "np.linalg.inv",
    "np.linalg.det", "np.linalg.solve", "np.linalg.pinv", "np.linalg.lstsq", "np.linalg.matrix_rank",
    "np.random.rand", "np.random.randn", "np.random.random", "np.random.uniform", "np.random.randint",
    "np.polynomial.legendre.leggauss", "np.polynomial.chebyshev.chebgauss",
    "np.polynomial.laguerre.laggauss",
    # scipy / sympy / stdlib
    "solve", "solve_ivp", "solve_bvp", "nnls", "cKDTree", "CubicSpline", "RegularGridInterpolator",
    "interpn", "erf", "erfc", "roots_genlaguerre", "roots_chebyu", "roots_legendre", "sph_harm",
    "sph_harm_y", "sph_harm_y_all", "factorial", "factorial2", "comb", "bell", "lpmv", "gamma",
    "R.random", "Rotation.random", "bisect_left", "bisect_right", "files", "islice", "product",
    "itertools.product", "itertools.islice", "warnings.warn", "json.load", "json.loads",
    "scipy.constants.value", "math.sqrt", "math.pi", "math.factorial", "math.ceil", "math.floor",
    "sp.bell", "sp.symbols", "sp.lambdify", "Number", "np.prod", "np.lexsort", "np.ravel_multi_index",
    "np.unravel_index", "np.indices", "np.mgrid", "np.ogrid", "np.fromiter", "np.genfromtxt",
    "dict", "list", "tuple", "set", "sorted", "reversed_copy", "np.char.array",
}
# NB: dict(x)/list(x)/tuple(x)/sorted(x) build a NEW container; its elements are shared with x.
# In-place edits of the new container do not touch x; in-place edits of an *element* reached
# through it would. They are classified FRESH for the container itself and the element case is
# covered by CONTAINER_COPY below (result aliases the *elements* of the argument only when the
# argument is a container of arrays; the library never edits elements through such copies —
# validated dynamically).

# functions returning (possibly) a VIEW of / the same object as an argument
VIEW_FUNCS = {
    "np.asarray", "np.asanyarray", "np.ascontiguousarray", "np.asfortranarray", "np.atleast_1d",
    "np.atleast_2d", "np.atleast_3d", "np.reshape", "np.ravel", "np.squeeze", "np.transpose",
    "np.swapaxes", "np.moveaxis", "np.broadcast_to", "np.broadcast_arrays", "np.expand_dims",
    "np.real", "np.imag", "np.flipud", "np.diagonal", "np.split", "np.array_split", "np.meshgrid",
    "np.nditer", "enumerate", "zip", "reversed", "iter", "next", "map", "filter", "getattr",
    "np.require", "np.asarray_chkfinite",
}
# functions that modify their FIRST argument in place
MUTATING_FUNCS = {
    "np.fill_diagonal", "np.put", "np.place", "np.putmask", "np.copyto", "np.put_along_axis",
    "np.random.shuffle", "random.shuffle", "np.add.at", "np.subtract.at", "np.multiply.at",
    "setattr", "delattr",
}
# more functions that modify their first argument in place (stdlib)
MUTATING_FUNCS |= {
    "heapq.heappush", "heapq.heappop", "heapq.heapify", "heapq.heapreplace", "heapq.heappushpop", "heappush",
    "heappop", "heapify", "bisect.insort", "bisect.insort_left", "bisect.insort_right", "insort", "insort_left",
    "insort_right", "operator.setitem", "operator.delitem", "operator.iadd", "operator.isub", "operator.imul",
    "operator.itruediv", "operator.ifloordiv", "operator.imod", "operator.ipow", "operator.imatmul",
    "operator.iand", "operator.ior", "operator.ixor", "operator.iconcat", "np.ndarray.sort", "np.ndarray.fill",
    "np.ndarray.partition", "np.ndarray.put", "np.ndarray.resize", "np.ndarray.setflags", "np.ndarray.itemset",
    "np.ndarray.__setitem__", "np.ndarray.__iadd__", "np.ndarray.__isub__", "np.ndarray.__imul__",
    "np.ndarray.__itruediv__", "rng.shuffle", "np.random.default_rng().shuffle",
}
# methods that modify their FIRST ARGUMENT in place (random generators)
ARG_MUTATING_METHODS = {"shuffle"}
# keyword arguments that name an output buffer (the call writes into the object given)
OUT_KEYWORDS = {"out", "output"}
# keyword arguments that allow the callee to work in place on its array arguments unless they are the
# constant False: SciPy `overwrite_a / overwrite_b / overwrite_ab / overwrite_x / overwrite_data / overwrite_v …`,
# NumPy `overwrite_input`, pandas-style `inplace` (LAPACK ignores the writeable flag of the array)
def _is_overwrite_kw(name: str) -> bool:
    return name.startswith("overwrite") or name == "inplace"
# scipy.linalg routines with the signature (a, b, …, overwrite_a=False, overwrite_b=False, …)
AB_SOLVERS = {"solve", "solve_triangular", "lstsq", "eigh", "eig", "eigvals", "eigvalsh", "cho_solve", "lu_solve",
              "solveh_banded"}
# `copy=<anything but the constant True>`: the result may be the argument itself; only for these pure
# converters is nothing written (np.nan_to_num(x, copy=False) works in place)
COPY_FALSE_CONVERTERS = {"np.array", "np.asarray", "np.asanyarray", "np.ascontiguousarray", "np.asfortranarray",
                         "np.require", "np.reshape", "astype", "reshape", "view"}
# positional `out`: index of the output operand
UNARY_UFUNCS = {"np." + n for n in (
    "abs absolute fabs sign sqrt cbrt square exp exp2 expm1 log log2 log10 log1p sin cos tan arcsin arccos arctan "
    "sinh cosh tanh arcsinh arccosh arctanh floor ceil rint trunc negative positive reciprocal conj conjugate "
    "isnan isinf isfinite logical_not deg2rad rad2deg degrees radians invert signbit spacing").split()}
BINARY_UFUNCS = {"np." + n for n in (
    "add subtract multiply divide true_divide floor_divide power float_power mod remainder fmod maximum minimum "
    "fmax fmin arctan2 hypot copysign nextafter ldexp logaddexp logaddexp2 logical_and logical_or logical_xor "
    "equal not_equal less greater less_equal greater_equal bitwise_and bitwise_or bitwise_xor left_shift "
    "right_shift heaviside gcd lcm matmul").split()}
FUNC_OUT_POS = {"np.dot": 2, "np.outer": 2, "np.clip": 3, "np.round": 2, "np.around": 2, "np.max": 2, "np.min": 2,
                "np.amax": 2, "np.amin": 2, "np.argmax": 2, "np.argmin": 2, "np.any": 2, "np.all": 2, "np.sum": 3,
                "np.prod": 3, "np.mean": 3, "np.cumsum": 3, "np.cumprod": 3, "np.take": 3, "np.compress": 3,
                "np.choose": 2, "np.nan_to_num": None}
METHOD_OUT_POS = {"sum": 2, "prod": 2, "mean": 2, "std": 2, "var": 2, "max": 1, "min": 1, "argmax": 1, "argmin": 1,
                  "any": 1, "all": 1, "dot": 1, "round": 1, "clip": 2, "cumsum": 2, "cumprod": 2, "take": 2,
                  "compress": 2, "choose": 1, "ptp": 1}

# methods that modify the receiver in place
MUTATING_METHODS = {
    "sort", "fill", "resize", "put", "itemset", "setflags", "partition", "byteswap_inplace",
    "append", "extend", "insert", "remove", "clear", "reverse", "pop", "popitem",
    "update", "setdefault", "add", "discard", "setfield",
    "__setitem__", "__delitem__", "__setattr__", "__delattr__", "__iadd__", "__isub__", "__imul__", "__itruediv__",
    "__ifloordiv__", "__imod__", "__ipow__", "__imatmul__", "__iand__", "__ior__", "__ixor__", "__ilshift__",
    "__irshift__", "sort_values_inplace",
}
# methods returning a new object not aliasing the receiver
FRESH_METHODS = {
    "copy", "astype", "sum", "prod", "mean", "std", "var", "max", "min", "argmax", "argmin", "any",
    "all", "dot", "tolist", "flatten", "round", "clip", "cumsum", "cumprod", "nonzero", "conj",
    "repeat", "take", "trace", "item", "tobytes", "lower", "upper", "strip", "split", "join",
    "format", "startswith", "endswith", "replace", "index", "count", "keys", "isdigit", "is_integer",
    "as_matrix", "as_quat", "apply", "query", "query_ball_point", "integrate", "derivative",
    "antiderivative", "joinpath", "read", "readline", "readlines", "write", "close", "encode",
    "decode", "norm", "conjugate", "ptp", "searchsorted", "argsort", "compress", "choose",
    "__call__",
}
# (everything else: result may alias the receiver and every argument)


def _external_method_names() -> set[str]:
    """Attribute names of the non-library objects the code handles; a method of that name on an
    unknown receiver is never resolved to a library summary."""
    import numpy as np
    from scipy.interpolate import CubicSpline, PPoly, RegularGridInterpolator
    from scipy.spatial import cKDTree
    from scipy.spatial.transform import Rotation

    out = set()
    for t in (np.ndarray, list, dict, tuple, str, set, CubicSpline, PPoly, RegularGridInterpolator, cKDTree,
              Rotation, np.lib.npyio.NpzFile, float, int):
        out.update(dir(t))
    return out


EXTERNAL_METHOD_NAMES = _external_method_names()


LIB_FUNCS: set[str] = set()
LIB_METHODS: set[str] = set()


class Unsupported(Exception):
    pass


def dotted(node) -> str | None:
    if isinstance(node, ast.Name):
        return node.id
    if isinstance(node, ast.Attribute):
        b = dotted(node.value)
        return None if b is None else f"{b}.{node.attr}"
    return None


class FuncTranslator:
    """Translate one top-level function/method (nested defs and lambdas inlined)."""

    def __init__(self, module: str, qualname: str, node: ast.FunctionDef, is_method: bool,
                 module_globals: set[str], fresh_funcs: set[str] = frozenset(),
                 fresh_methods: set[str] = frozenset(), lib_classes: set[str] = frozenset(),
                 module_defs: dict | None = None):
        self.module_defs = module_defs or {}
        self.fresh_lib_funcs = fresh_funcs      # library functions whose result never aliases an argument
        self.fresh_lib_methods = fresh_methods  # method names all of whose library definitions are such
        self.lib_classes = lib_classes
        self.lib_funcs = LIB_FUNCS
        self.lib_methods = LIB_METHODS
        self.returns: list[tuple] = []          # (ys, cb) of every `return` of the function itself
        self.module = module
        self.qualname = qualname
        self.node = node
        self.is_method = is_method
        self.is_ctor = node.name == "__init__"
        self.module_globals = module_globals
        self.vars: dict[str, int] = {}
        self.stmts: list[tuple] = []  # ("assign", x, ys, cb, lineno) | ("inplace", x, lineno)
        self.owned0: set[int] = set()
        self.selfname = None
        self.nparams = 0
        self.scopes: list[dict[str, str]] = []  # name -> variable key, innermost last
        self.counter = 0

    # -- variables --------------------------------------------------------------
    def var(self, key: str) -> int:
        if key not in self.vars:
            self.vars[key] = len(self.vars)
        return self.vars[key]

    def lookup(self, name: str) -> int | None:
        for sc in reversed(self.scopes):
            if name in sc:
                return self.var(sc[name])
        return None

    def selfattr(self, attr: str) -> int:
        key = f"self.{attr}"
        new = key not in self.vars
        v = self.var(key)
        if new and not self.is_ctor:
            self.owned0.add(v)
        return v

    # -- emit ---------------------------------------------------------------------
    def assign(self, x: int, ys, cb: bool, lineno: int):
        self.stmts.append(("assign", x, sorted(set(ys)), bool(cb), lineno))

    def inplace(self, xs, lineno: int):
        for x in sorted(set(xs)):
            self.stmts.append(("inplace", x, lineno))

    # -- scopes -------------------------------------------------------------------
    @staticmethod
    def assigned_names(fn) -> set[str]:
        """Names bound in the body of fn (not descending into nested defs/lambdas/classes)."""
        out = set()

        def tgt(t):
            if isinstance(t, ast.Name):
                out.add(t.id)
            elif isinstance(t, (ast.Tuple, ast.List)):
                for e in t.elts:
                    tgt(e)
            elif isinstance(t, ast.Starred):
                tgt(t.value)

        def walk(n):
            for c in ast.iter_child_nodes(n):
                if isinstance(c, (ast.FunctionDef, ast.AsyncFunctionDef)):
                    out.add(c.name)
                    continue
                if isinstance(c, (ast.Lambda, ast.ClassDef)):
                    continue
                if isinstance(c, ast.Assign):
                    for t in c.targets:
                        tgt(t)
                elif isinstance(c, (ast.AugAssign, ast.AnnAssign)):
                    tgt(c.target)
                elif isinstance(c, (ast.For, ast.AsyncFor)):
                    tgt(c.target)
                elif isinstance(c, ast.comprehension):
                    tgt(c.target)
                elif isinstance(c, (ast.With, ast.AsyncWith)):
                    for it in c.items:
                        if it.optional_vars is not None:
                            tgt(it.optional_vars)
                elif isinstance(c, ast.NamedExpr):
                    tgt(c.target)
                elif isinstance(c, ast.ExceptHandler) and c.name:
                    out.add(c.name)
                elif isinstance(c, (ast.Import, ast.ImportFrom)):
                    for a in c.names:
                        out.add((a.asname or a.name).split(".")[0])
                walk(c)

        body = fn.body if isinstance(fn.body, list) else [fn.body]
        for s in body:
            holder = ast.Module(body=[s], type_ignores=[]) if isinstance(s, ast.stmt) else ast.Expression(body=s)
            walk(holder)
        return out

    def all_args(self, args: ast.arguments):
        return [a.arg for a in args.posonlyargs + args.args] + ([args.vararg.arg] if args.vararg else []) + \
               [a.arg for a in args.kwonlyargs] + ([args.kwarg.arg] if args.kwarg else [])

    # -- top level ------------------------------------------------------------------
    def run(self):
        """Two identical passes: the first only collects, per variable, the kinds of objects
        assigned to it (`varkinds`); the second emits the statements using them."""
        self.prev_kinds = {}
        self._pass()
        self.prev_kinds = self.varkinds
        self._pass()
        return self

    def _pass(self):
        self.vars = {}
        self.stmts = []
        self.owned0 = set()
        self.returns = []
        self.scopes = []
        self.counter = 0
        self.retstack = []
        self.inline_stack = []
        self.inlining = 0
        self.varkinds = {}
        self._shape_cache = {}
        self.encl = [self.node]     # the function in whose text we are: top-level def, or inlined helper
        self.pins = []
        fn = self.node
        names = self.all_args(fn.args)
        deco = {dotted(d) for d in fn.decorator_list}
        scope = {}
        self.selfname = None
        if self.is_method and "staticmethod" not in deco and names:
            self.selfname = names[0] if "classmethod" not in deco else None
            names = names[1:]
        params = names
        for p in params:
            scope[p] = f"p:{p}"
            self.var(scope[p])
            self.varkinds.setdefault(scope[p], set()).add("unknown")
        self.nparams = len(params)
        for n in sorted(self.assigned_names(fn) - set(params)):
            scope[n] = f"l:{n}"
        self.scopes_names = set(scope)
        # names read or written inside nested defs / lambdas / comprehensions keep one variable
        self.captured = self.captured_names(fn)
        self.versions = {}
        self.scopes.append(scope)
        self.block(fn.body)
        self.scopes.pop()

    # -- flow sensitivity (SSA over the acyclic top-level structure) ---------------------------
    def new_version(self, name: str) -> int:
        k = self.versions.get(name, 0) + 1
        self.versions[name] = k
        base = self.scopes[0][name].split("#")[0]
        self.scopes[0][name] = f"{base}#{k}"
        return self.var(self.scopes[0][name])

    def block(self, stmts):
        """Statements executed in sequence, each at most once per execution of the function
        (function body, branches of top-level `if`, bodies of top-level `with`): an assignment
        `name = expr` here kills the previous value of `name`, so the name gets a new variable
        (unless a nested function captures it); after an `if` the versions of the branches are
        merged.  Loop / try bodies and nested functions are merged flow-insensitively."""
        for s in stmts:
            if isinstance(s, ast.Assign) and len(s.targets) == 1 and isinstance(s.targets[0], ast.Name) \
                    and s.targets[0].id not in self.captured and s.targets[0].id in self.scopes[0] \
                    and len(self.scopes) == 1:
                name = s.targets[0].id
                ys, cb = self.alias(s.value)  # evaluated with the old binding
                v = self.new_version(name)
                self.varkinds.setdefault(self.scopes[0][name], set()).add(self.kind_of(s.value))
                self.assign(v, ys, cb, s.lineno)
            elif isinstance(s, ast.With) and len(self.scopes) == 1:
                for it in s.items:
                    ys, cb = self.alias(it.context_expr)
                    if it.optional_vars is not None:
                        self.bind_target(it.optional_vars, ys, cb, s.lineno)
                self.block(s.body)
            elif isinstance(s, ast.If) and len(self.scopes) == 1:
                self.alias(s.test)
                before = dict(self.scopes[0])
                self.block(s.body)
                after_then = dict(self.scopes[0])
                self.scopes[0].clear()
                self.scopes[0].update(before)
                self.block(s.orelse)
                after_else = dict(self.scopes[0])
                for name in before:
                    a, b = after_then[name], after_else[name]
                    if a != b:
                        v = self.new_version(name)
                        key = self.scopes[0][name]
                        self.varkinds.setdefault(key, set()).update(
                            self.varkinds.get(a, {"unknown"}) | self.varkinds.get(b, {"unknown"}))
                        self.assign(v, [self.var(a), self.var(b)], False, s.lineno)
            else:
                self.stmt(s)

    @staticmethod
    def captured_names(fn) -> set[str]:
        out = set()
        for n in ast.walk(fn):
            if n is fn:
                continue
            if isinstance(n, (ast.FunctionDef, ast.AsyncFunctionDef, ast.Lambda, ast.ListComp, ast.SetComp,
                              ast.DictComp, ast.GeneratorExp)):
                for m in ast.walk(n):
                    if isinstance(m, ast.Name):
                        out.add(m.id)
        return out

    CONTAINER_CALLS = {"list", "dict", "set", "defaultdict", "OrderedDict"}

    def kind_of(self, v) -> str:
        """'container' (list/dict/set display, comprehension, list()/dict()/set() call, a module-level
        library object, a library object built right here), 'array' (result of arithmetic or of a
        NumPy function that returns a new array), else 'unknown'."""
        if isinstance(v, (ast.List, ast.Dict, ast.Set, ast.ListComp, ast.DictComp, ast.SetComp)):
            return "container"
        if isinstance(v, ast.Name) and v.id in self.module_globals and self.lookup(v.id) is None:
            return "container"   # a module-level (library-owned) object, e.g. a cache dict
        if isinstance(v, ast.Call):
            nm = dotted(v.func)
            if nm in self.CONTAINER_CALLS:
                return "container"
            if nm is not None and (nm.split(".")[-1] in self.lib_classes or nm == "cls"):
                return "container"   # a new library object built here: setting its attributes is not a write on caller data
            if nm is not None and nm.startswith("np.") and nm in FRESH_FUNCS:
                return "array"
            if isinstance(v.func, ast.Attribute) and v.func.attr in ("copy", "astype", "flatten"):
                return "array"
        if isinstance(v, (ast.BinOp, ast.UnaryOp)):
            return "array"
        if isinstance(v, ast.Attribute) and v.attr == "T":
            return "array"   # only NumPy arrays have `.T`
        if isinstance(v, ast.IfExp):
            a, b = self.kind_of(v.body), self.kind_of(v.orelse)
            return a if a == b else "unknown"
        return "unknown"

    def kind(self, node) -> str:
        """'container' / 'array' if every assignment to the receiver variable is of that kind."""
        key = None
        if isinstance(node, ast.Name):
            v = self.lookup(node.id)
            if v is not None:
                key = next(k for k, i in self.vars.items() if i == v)
            elif node.id in self.module_globals:
                return "container"
        elif isinstance(node, ast.Attribute) and isinstance(node.value, ast.Name) \
                and node.value.id == self.selfname and self.lookup(node.value.id) is None:
            key = f"self.{node.attr}"
        ks = self.prev_kinds.get(key, {"unknown"}) if key else {"unknown"}
        return next(iter(ks)) if len(ks) == 1 else "unknown"

    # -- nested function / lambda: inline ---------------------------------------------
    def inline_function(self, fn, name_key: str | None):
        """Inline a nested def/lambda: its parameters may receive anything (cb), its body
        statements join the parent's statement set; returns the variable holding the
        possible return objects."""
        self.counter += 1
        tag = f"n{self.counter}"
        scope = {}
        pinned, cand, sites = self.pinned_defaults(fn)
        row = None
        if cand:
            # certificate for Lean (`Gen.Effects.pins`): the call shapes of the enclosing function and,
            # per parameter with a default, its position / name and the statement emitted for it;
            # `pinOk` re-decides the condition in the kernel
            row = dict(encl=self.encl[-1].name, fn=getattr(fn, "name", "<lambda>"), line=fn.lineno,
                       sites=sites, params=[])
            self.pins.append(row)
        for p in self.all_args(fn.args):
            scope[p] = f"{tag}:p:{p}"
            if p in pinned:
                # `name=<expr>` never overridden by any call in this function (the default-argument
                # closure idiom): the parameter IS its default, evaluated in the enclosing scope
                ys, cb = self.alias(pinned[p])
                self.varkinds.setdefault(scope[p], set()).add(self.kind(pinned[p]))
                self.assign(self.var(scope[p]), ys, cb, fn.lineno)
                row["params"].append(dict(name=p, var=self.var(scope[p]), pos=cand[p][0], ys=sorted(set(ys)),
                                          cb=bool(cb), pinned=True))
                continue
            self.varkinds.setdefault(scope[p], set()).add("unknown")
            self.assign(self.var(scope[p]), [], True, fn.lineno)
            if p in cand:
                row["params"].append(dict(name=p, var=self.var(scope[p]), pos=cand[p][0], ys=[], cb=True, pinned=False))
        if not isinstance(fn, ast.Lambda):
            for n in sorted(self.assigned_names(fn) - set(scope)):
                scope[n] = f"{tag}:l:{n}"
        ret = self.var(name_key or f"{tag}:ret")
        self.scopes.append(scope)
        self.retstack.append(ret)
        if isinstance(fn, ast.Lambda):
            ys, cb = self.alias(fn.body)
            self.assign(ret, ys, cb, fn.lineno)
        else:
            for s in fn.body:
                self.stmt(s)
        self.retstack.pop()
        self.scopes.pop()
        return ret

    # container methods / builtins that take a function object without calling it
    HOLDER_METHODS = {"append", "extend", "insert", "add", "update", "setdefault"}
    PASS_THROUGH = {"list", "tuple", "dict", "set", "frozenset", "reversed", "enumerate", "zip", "iter",
                    "next", "len", "isinstance", "callable", "id", "type", "bool", "repr", "str"}

    def pinned_defaults(self, fn):
        """Parameters of a nested def / lambda `fn` that have a default value which no call can
        override -> (pinned {name: default expression}, candidates {name: (position | None, default)},
        call shapes [(npos, [keywords], star)] of the enclosing function).

        T = the function in whose text `fn` is written (the top-level function being translated, or
        the private module-level helper being inlined).  The syntactic condition has two parts.

        (E) *`fn` is only ever called from call expressions written in T.*  Let H (the holders) be
        the least set of names with: the name of `fn`; every name bound (assignment, `for`, `with`,
        comprehension, walrus, default value of a nested function's parameter) to an expression
        that mentions `fn` or a holder outside the callee position of a call; every local name `h`
        of T with `h.append/extend/insert/add/update/setdefault(… fn or a holder …)` or
        `h[…] = … fn or a holder …`.  (E) requires that in the whole text of T, nested functions
        included: no `return`/`yield` value mentions `fn` or a holder (outside callee positions); no
        assignment to an attribute, to a subscript of a parameter / non-local, or to a `global` /
        `nonlocal` name has such a value; `fn` / a holder is not passed as an argument of any call
        other than the container methods above on a local name and the non-calling builtins
        `list tuple dict set frozenset reversed enumerate zip iter next len isinstance callable id type
        bool repr str` (none of them calls its argument with arguments);
        no method is called on `fn` / a holder other than those container methods, `get`, `pop`,
        `copy`, `items`, `values`, `keys`, `index`, `count`; `fn` has no decorator.

        (S) *no call expression of T supplies the parameter.*  The call shapes of T are collected
        from every call whose callee is not a dotted name (by (E) a dotted callee cannot evaluate to
        `fn`) and not a builtin / module-level name that T does not rebind: number of positional
        arguments, keyword names, presence of `*`/`**`.  A parameter at positional index i named n is
        overridable by a shape with `*`/`**`, with keyword n, or with more than i positional
        arguments.  Lean re-decides (S) on the recorded shapes (`GridVerif.Effects.pinned`,
        `GridVerif.C20.all_pins_ok`); `GridVerif.C20.enter_pinned` proves that under (S) Python's
        argument binding leaves the parameter at its default for every call that fits a recorded
        shape.  (E) is established here and is part of the trusted extraction."""
        import builtins
        a = fn.args
        pos = a.posonlyargs + a.args
        cand = {}
        for k, d in enumerate(a.defaults):
            cand[pos[len(pos) - len(a.defaults) + k].arg] = (len(pos) - len(a.defaults) + k, d)
        for x, d in zip(a.kwonlyargs, a.kw_defaults):
            if d is not None:
                cand[x.arg] = (None, d)
        if not cand:
            return {}, {}, []
        top = self.encl[-1]
        if id(top) not in self._shape_cache:
            assigned = self.assigned_names(top) | set(self.all_args(top.args))
            mod_globals = self.module_globals
            shapes = []
            for n in ast.walk(top):
                if isinstance(n, ast.Call) and not isinstance(n.func, ast.Attribute):
                    if isinstance(n.func, ast.Name) and n.func.id not in assigned and hasattr(builtins, n.func.id):
                        continue
                    if isinstance(n.func, ast.Name) and n.func.id not in assigned and n.func.id in mod_globals:
                        continue
                    star = any(isinstance(x, ast.Starred) for x in n.args) or any(k.arg is None for k in n.keywords)
                    shapes.append((len(n.args), sorted({k.arg for k in n.keywords if k.arg}), bool(star)))
            uniq = []
            for sh in shapes:
                if sh not in uniq:
                    uniq.append(sh)
            self._shape_cache[id(top)] = sorted(uniq)
        sites = self._shape_cache[id(top)]
        if self._escapes(top, fn):
            return {}, cand, sites
        out = {}
        for name, (idx, d) in cand.items():
            if any(star or name in kws or (idx is not None and npos > idx) for npos, kws, star in sites):
                continue
            out[name] = d
        return out, cand, sites

    def _escapes(self, top, fn) -> bool:
        """Negation of condition (E) of `pinned_defaults` (conservative: name based, scopes ignored)."""
        if getattr(fn, "decorator_list", None):
            return True
        params = set(self.all_args(top.args))
        local = self.assigned_names(top) - params
        holders = {fn.name} if hasattr(fn, "name") else set()
        read_methods = {"get", "pop", "copy", "items", "values", "keys", "index", "count"}

        def mentions(e) -> bool:
            """`fn` or a holder occurs in e outside the callee position of a call."""
            if e is None:
                return False
            if e is fn:
                return True
            if isinstance(e, ast.Name):
                return e.id in holders
            if isinstance(e, ast.Call):
                f = e.func
                if isinstance(f, ast.Attribute) and mentions(f.value):
                    return True      # h.pop() / h.get(k) / h.copy(): the result may be fn
                return any(mentions(x) for x in e.args) or any(mentions(k.value) for k in e.keywords)
            if isinstance(e, (ast.FunctionDef, ast.AsyncFunctionDef, ast.Lambda)):
                # another function object: its defaults hold what they mention (its body is looked at
                # by the statement walk; a lambda body that hands `fn` out is an escape, see below)
                return any(mentions(d) for d in list(e.args.defaults) + [d for d in e.args.kw_defaults if d is not None])
            if isinstance(e, ast.keyword):
                return mentions(e.value)
            if isinstance(e, ast.comprehension):
                return mentions(e.iter) or any(mentions(i) for i in e.ifs)
            return any(mentions(c) for c in ast.iter_child_nodes(e)
                       if isinstance(c, (ast.expr, ast.keyword, ast.comprehension)))

        def names_of(t, out):
            if isinstance(t, ast.Name):
                out.add(t.id)
            elif isinstance(t, (ast.Tuple, ast.List)):
                for x in t.elts:
                    names_of(x, out)
            elif isinstance(t, ast.Starred):
                names_of(t.value, out)

        # holders: least fixed point
        changed = True
        while changed:
            changed = False
            before = len(holders)
            for n in ast.walk(top):
                tg, val = [], None
                if isinstance(n, ast.Assign):
                    tg, val = n.targets, n.value
                elif isinstance(n, (ast.AugAssign, ast.AnnAssign)):
                    tg, val = [n.target], n.value
                elif isinstance(n, ast.NamedExpr):
                    tg, val = [n.target], n.value
                elif isinstance(n, (ast.For, ast.AsyncFor)):
                    tg, val = [n.target], n.iter
                elif isinstance(n, ast.comprehension):
                    tg, val = [n.target], n.iter
                elif isinstance(n, ast.withitem) and n.optional_vars is not None:
                    tg, val = [n.optional_vars], n.context_expr
                if val is not None and mentions(val):
                    for t in tg:
                        names_of(t, holders)
                        if isinstance(t, ast.Subscript) and isinstance(t.value, ast.Name):
                            holders.add(t.value.id)
                if isinstance(n, (ast.FunctionDef, ast.AsyncFunctionDef, ast.Lambda)) and n is not top:
                    aa = n.args
                    ps = aa.posonlyargs + aa.args
                    for k, d in enumerate(aa.defaults):
                        if mentions(d):
                            holders.add(ps[len(ps) - len(aa.defaults) + k].arg)
                    for x, d in zip(aa.kwonlyargs, aa.kw_defaults):
                        if d is not None and mentions(d):
                            holders.add(x.arg)
                if isinstance(n, ast.Call) and isinstance(n.func, ast.Attribute) and isinstance(n.func.value, ast.Name) \
                        and n.func.attr in self.HOLDER_METHODS \
                        and (any(mentions(x) for x in n.args) or any(mentions(k.value) for k in n.keywords)):
                    holders.add(n.func.value.id)
            changed = len(holders) != before
        # the escape conditions
        for n in ast.walk(top):
            if isinstance(n, (ast.Return, ast.Yield, ast.YieldFrom)) and mentions(n.value):
                return True
            if isinstance(n, (ast.Global, ast.Nonlocal)) and set(n.names) & holders:
                return True
            if isinstance(n, ast.Lambda) and n is not fn and mentions(n.body):
                return True      # a lambda whose value is (or contains) fn
            if isinstance(n, (ast.Assign, ast.AugAssign, ast.AnnAssign)) and n.value is not None and mentions(n.value):
                for t in (n.targets if isinstance(n, ast.Assign) else [n.target]):
                    for m in ast.walk(t):
                        if isinstance(m, ast.Attribute):
                            return True
                        if isinstance(m, ast.Subscript):
                            b = m.value
                            if not (isinstance(b, ast.Name) and b.id in local):
                                return True
            if isinstance(n, ast.Call):
                f = n.func
                passes = any(mentions(x) for x in n.args) or any(mentions(k.value) for k in n.keywords)
                if isinstance(f, ast.Attribute) and mentions(f.value):
                    if f.attr not in self.HOLDER_METHODS | read_methods:
                        return True      # fn.__call__(…), holder.sort(key=…) …
                if passes:
                    if isinstance(f, ast.Attribute) and isinstance(f.value, ast.Name) and f.attr in self.HOLDER_METHODS \
                            and f.value.id in local:
                        continue
                    if isinstance(f, ast.Name) and f.id in self.PASS_THROUGH and f.id not in local | params:
                        continue
                    return True
        if holders & params:
            return True      # a holder that is also a parameter of T: the caller can reach it
        return False

    def inline_call(self, fn: ast.FunctionDef, call: ast.Call):
        """Inline a call of a private module-level function: its parameters are bound to what the
        arguments may alias (defaults: evaluated as expressions of the module), its statements
        join the caller's statement set under fresh variable names, the result is what its
        `return`s may alias."""
        self.counter += 1
        tag = f"i{self.counter}:{fn.name}"
        a = fn.args
        pos = [x.arg for x in a.posonlyargs + a.args]
        kwonly = [x.arg for x in a.kwonlyargs]
        bound: dict[str, tuple] = {}
        star = (set(), False)
        for i, arg in enumerate(call.args):
            if isinstance(arg, ast.Starred):
                ys, cb = self.alias(arg.value)
                star = (star[0] | ys, star[1] or cb)
            elif i < len(pos):
                bound[pos[i]] = self.alias(arg)
            else:
                ys, cb = self.alias(arg)
                star = (star[0] | ys, star[1] or cb)
        for k in call.keywords:
            ys, cb = self.alias(k.value)
            if k.arg is None or k.arg not in pos + kwonly:
                star = (star[0] | ys, star[1] or cb)
            else:
                bound[k.arg] = (ys, cb)
        # evaluate the rest in the callee's own (isolated) scope
        saved = (self.scopes, self.selfname)
        scope = {}
        names = self.all_args(a)
        for n in names:
            scope[n] = f"{tag}:p:{n}"
        for n in sorted(self.assigned_names(fn) - set(names)):
            scope[n] = f"{tag}:l:{n}"
        self.scopes = [scope]   # isolated: free names of the callee are module globals
        self.selfname = None
        self.inlining = getattr(self, "inlining", 0) + 1
        for n in names:
            ys, cb = bound.get(n, (set(), False))
            ys, cb = set(ys) | star[0], cb or star[1]
            self.varkinds.setdefault(scope[n], set()).add("unknown")
            self.assign(self.var(scope[n]), ys, cb, call.lineno)
        ret = self.var(f"{tag}:ret")
        self.retstack.append(ret)
        self.inline_stack.append(fn.name)
        self.encl.append(fn)
        saved_captured, saved_versions = self.captured, self.versions
        self.captured, self.versions = self.captured_names(fn), {}
        # each execution of the callee runs its body once from the top with freshly bound
        # parameters and locals, so the body is a `block` (flow-sensitive) of its own
        self.block(fn.body)
        self.captured, self.versions = saved_captured, saved_versions
        self.encl.pop()
        self.inline_stack.pop()
        self.retstack.pop()
        self.inlining -= 1
        self.scopes, self.selfname = saved
        return {ret}, False

    # -- expressions: -> (set of vars it may alias, cb) ----------------------------------
    def alias(self, e) -> tuple[set[int], bool]:
        if e is None or isinstance(e, (ast.Constant, ast.JoinedStr, ast.Compare, ast.FormattedValue)):
            if isinstance(e, ast.Compare):
                self.visit_children(e)
            if isinstance(e, ast.JoinedStr):
                self.visit_children(e)
            return set(), False
        if isinstance(e, ast.Name):
            v = self.lookup(e.id)
            if v is not None:
                return {v}, False
            if e.id == self.selfname:
                # the object itself: conservatively everything it holds
                return {self.selfattr("*")}, False
            return set(), False  # module global / builtin: library-owned
        if isinstance(e, ast.Attribute):
            if isinstance(e.value, ast.Name) and e.value.id == self.selfname and self.lookup(e.value.id) is None:
                return {self.selfattr(e.attr)}, False
            ys, cb = self.alias(e.value)
            if e.attr in IMMUT_ATTRS:
                return set(), False
            return ys, cb
        if isinstance(e, ast.Subscript):
            ys, cb = self.alias(e.value)
            self.alias(e.slice)
            return ys, cb
        if isinstance(e, ast.Slice):
            for p in (e.lower, e.upper, e.step):
                if p is not None:
                    self.alias(p)
            return set(), False
        if isinstance(e, (ast.BinOp,)):
            self.alias(e.left)
            self.alias(e.right)
            return set(), False
        if isinstance(e, ast.UnaryOp):
            self.alias(e.operand)
            return set(), False
        if isinstance(e, ast.BoolOp):
            ys, cb = set(), False
            for v in e.values:
                a, b = self.alias(v)
                ys |= a
                cb |= b
            return ys, cb
        if isinstance(e, ast.IfExp):
            self.alias(e.test)
            a1, c1 = self.alias(e.body)
            a2, c2 = self.alias(e.orelse)
            return a1 | a2, c1 or c2
        if isinstance(e, (ast.Tuple, ast.List, ast.Set)):
            ys, cb = set(), False
            for v in e.elts:
                a, b = self.alias(v)
                ys |= a
                cb |= b
            return ys, cb
        if isinstance(e, ast.Dict):
            ys, cb = set(), False
            for v in list(e.keys) + list(e.values):
                if v is not None:
                    a, b = self.alias(v)
                    ys |= a
                    cb |= b
            return ys, cb
        if isinstance(e, ast.Starred):
            return self.alias(e.value)
        if isinstance(e, (ast.ListComp, ast.SetComp, ast.GeneratorExp, ast.DictComp)):
            scope = {}
            self.counter += 1
            tag = f"c{self.counter}"
            self.scopes.append(scope)
            for g in e.generators:
                ys, cb = self.alias(g.iter)
                self.bind_target(g.target, ys, cb, e.lineno, scope, tag)
                for c in g.ifs:
                    self.alias(c)
            if isinstance(e, ast.DictComp):
                a1, c1 = self.alias(e.key)
                a2, c2 = self.alias(e.value)
                res = (a1 | a2, c1 or c2)
            else:
                res = self.alias(e.elt)
            self.scopes.pop()
            return res
        if isinstance(e, ast.Lambda):
            ret = self.inline_function(e, None)
            # the function object: calling it yields `ret`
            return {ret}, False
        if isinstance(e, ast.NamedExpr):
            ys, cb = self.alias(e.value)
            self.bind_target(e.target, ys, cb, e.lineno)
            return ys, cb
        if isinstance(e, ast.Call):
            return self.call(e)
        if isinstance(e, (ast.Yield, ast.YieldFrom)):
            if e.value is not None:
                ys, cb = self.alias(e.value)
                if getattr(self, "retstack", None):
                    self.assign(self.retstack[-1], ys, cb, e.lineno)
            return set(), True  # what the consumer sends back
        raise Unsupported(f"{self.module}.{self.qualname}: expression {type(e).__name__} at line {getattr(e, 'lineno', '?')}")

    def visit_children(self, e):
        for c in ast.iter_child_nodes(e):
            if isinstance(c, ast.expr):
                self.alias(c)

    def call(self, e: ast.Call):
        """Aliases of the result of a call (see `_call`), after the effects that depend on HOW the callee
        is called: keyword arguments that let it work in place, `copy=False`, positional `out` operands."""
        res = self._call(e)
        f = e.func
        name = dotted(f)
        write_all = any(k.arg and _is_overwrite_kw(k.arg) and not (isinstance(k.value, ast.Constant) and k.value.value is False)
                        for k in e.keywords)
        may_alias = any(k.arg == "copy" and not (isinstance(k.value, ast.Constant) and k.value.value is True)
                        for k in e.keywords)
        is_obj_method = isinstance(f, ast.Attribute) and self._is_object(f.value)
        last = f.attr if isinstance(f, ast.Attribute) else name
        targets = None
        if write_all and not may_alias and (name or "").split(".")[-1] in AB_SOLVERS and not is_obj_method \
                and not any(isinstance(a, ast.Starred) for a in e.args) and all(k.arg for k in e.keywords):
            # scipy.linalg (a, b, …, overwrite_a=…, overwrite_b=…): only the named operand is written
            targets = []
            for k in e.keywords:
                if _is_overwrite_kw(k.arg) and not (isinstance(k.value, ast.Constant) and k.value.value is False):
                    slot = {"overwrite_a": ("a", 0), "overwrite_b": ("b", 1)}.get(k.arg)
                    if slot is None:
                        targets = None
                        break
                    targets += [kk.value for kk in e.keywords if kk.arg == slot[0]] + list(e.args[slot[1]:slot[1] + 1])
        if write_all or may_alias:
            ys, cb = set(), False
            for a in (targets if targets is not None else
                      list(e.args) + [k.value for k in e.keywords] + ([f.value] if is_obj_method else [])):
                y, c = self.alias(a)
                ys |= y
                cb |= c
            if write_all or not ((name in COPY_FALSE_CONVERTERS and not is_obj_method) or (is_obj_method and last in COPY_FALSE_CONVERTERS)):
                self.inplace(ys, e.lineno)
                if cb:
                    self.inplace([self.cbvar()], e.lineno)
            res = (set(res[0]) | ys, res[1] or cb)
        # positional output operand
        idx = None
        if not is_obj_method and name is not None:
            if name in UNARY_UFUNCS:
                idx = 1
            elif name in BINARY_UFUNCS:
                idx = 2
            else:
                idx = FUNC_OUT_POS.get(name)
            if re.match(r"^np\.\w+\.at$", name) and e.args:
                idx = 0
        elif is_obj_method:
            idx = METHOD_OUT_POS.get(last)
            if last in ARG_MUTATING_METHODS and e.args:
                idx = 0
        if idx is not None and len(e.args) > idx and not any(isinstance(a, ast.Starred) for a in e.args[:idx + 1]):
            ys, cb = self.alias(e.args[idx])
            self.inplace(ys, e.lineno)
            if cb:
                self.inplace([self.cbvar()], e.lineno)
            res = (set(res[0]) | ys, res[1] or cb)
        elif idx is not None and any(isinstance(a, ast.Starred) for a in e.args):
            for a in e.args:   # `*args` may reach the output operand
                ys, cb = self.alias(a)
                self.inplace(ys, e.lineno)
                if cb:
                    self.inplace([self.cbvar()], e.lineno)
        return res

    def _call(self, e: ast.Call):
        argys, argcb = set(), False
        for a in e.args:
            ys, cb = self.alias(a)
            argys |= ys
            argcb |= cb
        for k in e.keywords:
            ys, cb = self.alias(k.value)
            if k.arg in OUT_KEYWORDS:
                self.inplace(ys, e.lineno)
                if cb:
                    self.inplace([self.cbvar()], e.lineno)
            argys |= ys
            argcb |= cb
        f = e.func
        name = dotted(f)
        # --- call of a local variable / parameter / inlined nested function -------------
        if isinstance(f, ast.Name):
            v = self.lookup(f.id)
            if v is not None:
                # a callable held in a local or parameter: user callback (or inlined nested def,
                # whose variable already carries its possible results)
                # (the variable of an inlined nested def carries its possible results; a parameter
                #  is in the may-alias set anyway; a callable built by the library or SciPy is not)
                return {v}, False
        # --- private module-level helper of the same module: inline at the call site -------------
        if isinstance(f, ast.Name) and f.id.startswith("_") and f.id in self.module_defs \
                and f.id not in self.inline_stack and len(self.inline_stack) < 6:
            return self.inline_call(self.module_defs[f.id], e)
        # --- dotted names -----------------------------------------------------------------
        if name is not None and not (isinstance(f, ast.Attribute) and self._is_object(f.value)):
            if name in MUTATING_FUNCS:
                if e.args:
                    ys, cb = self.alias(e.args[0])
                    self.inplace(ys, e.lineno)
                    if cb:
                        self.inplace([self.cbvar()], e.lineno)
                return set(), False
            if name in FRESH_FUNCS:
                return set(), False
            if name in VIEW_FUNCS:
                return argys, argcb
            last = name.split(".")[-1]
            if (name in self.lib_funcs and name in self.fresh_lib_funcs) or (
                "." in name and name.split(".")[0] in self.lib_classes | {"cls"}
                and last in self.lib_methods and last in self.fresh_lib_methods
            ):
                return set(), False
            # library function / class / unknown module function: may return a view of any argument
            return argys, argcb
        # --- method call on an object ------------------------------------------------------
        if isinstance(f, ast.Attribute):
            rys, rcb = self.alias(f.value)
            is_self = isinstance(f.value, ast.Name) and f.value.id == self.selfname and self.lookup(f.value.id) is None
            if f.attr in MUTATING_METHODS and not is_self:
                if self.kind(f.value) != "container":
                    self.inplace(rys, e.lineno)
                    if rcb:
                        self.inplace([self.cbvar()], e.lineno)
                # the container now also holds the arguments
                for y in rys:
                    self.assign(y, {y} | argys, argcb, e.lineno)
                if f.attr in ("pop", "popitem", "setdefault"):
                    return rys | argys, rcb or argcb
                return set(), False
            if f.attr in FRESH_METHODS and not is_self:
                return set(), False
            if not is_self and f.attr in self.lib_methods and f.attr in self.fresh_lib_methods \
                    and f.attr not in EXTERNAL_METHOD_NAMES:
                return set(), False
            if is_self:
                if f.attr in self.lib_methods and f.attr in self.fresh_lib_methods:
                    return set(), False
                # a method of the object under construction / the receiver: may hand back any of
                # its attributes or a view of any argument
                return argys | {self.selfattr("*")}, argcb
            return rys | argys, rcb or argcb
        # --- call of an element of a container of callables, of a call result, … -----------------
        ys, cb = self.alias(f)
        return ys, cb

    def _is_object(self, node) -> bool:
        """Is `node` (receiver of an attribute call) a local object rather than a module?"""
        while isinstance(node, ast.Attribute):
            node = node.value
        if isinstance(node, ast.Name):
            return self.lookup(node.id) is not None or node.id == self.selfname
        return True

    def cbvar(self) -> int:
        """A variable standing for 'some caller-owned object' (always in the may-alias set)."""
        v = self.var("<caller>")
        self.assign(v, [], True, 0)
        return v

    # -- binding targets -----------------------------------------------------------------------
    def bind_target(self, t, ys, cb, lineno, scope=None, tag=None, kind="unknown"):
        if isinstance(t, ast.Name):
            if scope is not None:
                scope[t.id] = f"{tag}:{t.id}"
            v = self.lookup(t.id)
            if v is None:
                # assignment to a global (declared `global`): library-owned
                return
            key = next(k for k, i in self.vars.items() if i == v)
            self.varkinds.setdefault(key, set()).add(kind)
            self.assign(v, ys, cb, lineno)
        elif isinstance(t, (ast.Tuple, ast.List)):
            for el in t.elts:
                # unpacking a NumPy array yields arrays (views of it) or scalars
                self.bind_target(el, ys, cb, lineno, scope, tag, kind="array" if kind == "array" else "unknown")
        elif isinstance(t, ast.Starred):
            self.bind_target(t.value, ys, cb, lineno, scope, tag)
        elif isinstance(t, ast.Attribute):
            if isinstance(t.value, ast.Name) and t.value.id == self.selfname and self.lookup(t.value.id) is None:
                self.varkinds.setdefault(f"self.{t.attr}", set()).add(kind)
                self.assign(self.selfattr(t.attr), ys, cb, lineno)
                # the catch-all "anything self holds"
                self.assign(self.selfattr("*"), ys | {self.selfattr("*")}, cb, lineno)
            else:
                # attribute assignment on another object mutates that object
                oys, ocb = self.alias(t.value)
                if self.kind(t.value) != "container":
                    self.inplace(oys, lineno)
                    if ocb:
                        self.inplace([self.cbvar()], lineno)
                for y in oys:
                    self.assign(y, {y} | ys, cb, lineno)
        elif isinstance(t, ast.Subscript):
            oys, ocb = self.alias(t.value)
            self.alias(t.slice)
            k = self.kind(t.value)
            if k != "container":
                # (storing into a list/dict created in this function only changes that container)
                self.inplace(oys, lineno)
                if ocb:
                    self.inplace([self.cbvar()], lineno)
            if k != "array":
                # (storing into a NumPy array copies the data; a container keeps a reference)
                for y in oys:
                    self.assign(y, {y} | ys, cb, lineno)
        else:
            raise Unsupported(f"{self.module}.{self.qualname}: target {type(t).__name__} at line {lineno}")

    # -- statements ---------------------------------------------------------------------------------
    def stmt(self, s):
        if isinstance(s, ast.Expr):
            self.alias(s.value)
        elif isinstance(s, ast.Assign):
            if isinstance(s.value, ast.Tuple) and all(
                isinstance(t, ast.Tuple) and len(t.elts) == len(s.value.elts) for t in s.targets
            ) and not any(isinstance(x, ast.Starred) for t in s.targets for x in t.elts):
                parts = [self.alias(v) + (self.kind_of(v),) for v in s.value.elts]
                for t in s.targets:
                    for el, (ys, cb, kd) in zip(t.elts, parts):
                        self.bind_target(el, ys, cb, s.lineno, kind=kd)
            else:
                ys, cb = self.alias(s.value)
                for t in s.targets:
                    self.bind_target(t, ys, cb, s.lineno, kind=self.kind_of(s.value))
        elif isinstance(s, ast.AnnAssign):
            if s.value is not None:
                ys, cb = self.alias(s.value)
                self.bind_target(s.target, ys, cb, s.lineno, kind=self.kind_of(s.value))
        elif isinstance(s, ast.AugAssign):
            self.alias(s.value)
            t = s.target
            if isinstance(t, ast.Name):
                v = self.lookup(t.id)
                if v is not None:
                    if self.kind(t) == "container":
                        # `lst += other` on a list created in this function extends that list
                        ys, cb = self.alias(s.value)
                        self.assign(v, {v} | ys, cb, s.lineno)
                    else:
                        self.inplace([v], s.lineno)
            elif isinstance(t, ast.Attribute) and isinstance(t.value, ast.Name) and t.value.id == self.selfname \
                    and self.lookup(t.value.id) is None:
                self.inplace([self.selfattr(t.attr)], s.lineno)
            else:
                oys, ocb = self.alias(t.value)
                if isinstance(t, ast.Subscript):
                    self.alias(t.slice)
                self.inplace(oys, s.lineno)
                if ocb:
                    self.inplace([self.cbvar()], s.lineno)
        elif isinstance(s, (ast.For, ast.AsyncFor)):
            ys, cb = self.alias(s.iter)
            self.bind_target(s.target, ys, cb, s.lineno)
            for b in s.body + s.orelse:
                self.stmt(b)
        elif isinstance(s, ast.While):
            self.alias(s.test)
            for b in s.body + s.orelse:
                self.stmt(b)
        elif isinstance(s, ast.If):
            self.alias(s.test)
            for b in s.body + s.orelse:
                self.stmt(b)
        elif isinstance(s, (ast.With, ast.AsyncWith)):
            for it in s.items:
                ys, cb = self.alias(it.context_expr)
                if it.optional_vars is not None:
                    self.bind_target(it.optional_vars, ys, cb, s.lineno)
            for b in s.body:
                self.stmt(b)
        elif isinstance(s, ast.Try):
            for b in s.body + s.orelse + s.finalbody:
                self.stmt(b)
            for h in s.handlers:
                for b in h.body:
                    self.stmt(b)
        elif isinstance(s, ast.Return):
            if s.value is not None:
                ys, cb = self.alias(s.value)
                if getattr(self, "retstack", None):
                    self.assign(self.retstack[-1], ys, cb, s.lineno)
                else:
                    self.returns.append((set(ys), cb))
        elif isinstance(s, ast.Raise):
            if s.exc is not None:
                self.alias(s.exc)
        elif isinstance(s, ast.Assert):
            self.alias(s.test)
        elif isinstance(s, ast.Delete):
            for t in s.targets:
                if isinstance(t, (ast.Subscript, ast.Attribute)):
                    oys, ocb = self.alias(t.value)
                    self.inplace(oys, s.lineno)
                    if ocb:
                        self.inplace([self.cbvar()], s.lineno)
        elif isinstance(s, (ast.FunctionDef, ast.AsyncFunctionDef)):
            # nested def: inline; the name becomes a variable holding its possible results
            sc = self.scopes[-1]
            key = sc.get(s.name, f"l:{s.name}") + ":fn"
            sc[s.name] = key
            self.inline_function(s, key)
        elif isinstance(s, (ast.Pass, ast.Break, ast.Continue, ast.Import, ast.ImportFrom, ast.Global, ast.Nonlocal)):
            if isinstance(s, (ast.Global, ast.Nonlocal)):
                for n in s.names:
                    for sc in self.scopes:
                        sc.pop(n, None) if isinstance(s, ast.Global) else None
        elif isinstance(s, ast.ClassDef):
            raise Unsupported(f"{self.module}.{self.qualname}: nested class at line {s.lineno}")
        else:
            raise Unsupported(f"{self.module}.{self.qualname}: statement {type(s).__name__} at line {s.lineno}")


class _All:
    """The set of all names (initial, optimistic assumption of the summary fixpoint)."""

    def __contains__(self, x):
        return True

    def __or__(self, other):
        return self


def _taint(p) -> set[int]:
    t = set(range(p.nparams)) | set(p.owned0)
    changed = True
    while changed:
        changed = False
        for s in p.stmts:
            if s[0] == "assign" and (s[3] or any(y in t for y in s[2])) and s[1] not in t:
                t.add(s[1])
                changed = True
    return t


def _returns_fresh(p) -> bool:
    """No `return` of the function can hand back (a view of) a parameter, a callback result
    or an attribute of self."""
    t = _taint(p)
    return all((not cb) and not (ys & t) for ys, cb in p.returns)


def translate_all():
    """-> list of dict(name, nparams, owned0, stmts, vars)

    Library functions are first summarised ("result never aliases an argument") by a
    fixpoint that starts from *no* such assumption and only adds functions proved so under
    the assumptions already established."""
    trees = {m: ast.parse((SRC / f"{m}.py").read_text()) for m in MODULES}
    LIB_FUNCS.clear()
    LIB_METHODS.clear()
    for t in trees.values():
        for n in t.body:
            if isinstance(n, ast.FunctionDef):
                LIB_FUNCS.add(n.name)
            elif isinstance(n, ast.ClassDef):
                LIB_METHODS.update(c.name for c in n.body if isinstance(c, ast.FunctionDef))
    lib_classes = {n.name for t in trees.values() for n in t.body if isinstance(n, ast.ClassDef)}
    # Greatest fixpoint: assume every library function returns a fresh object, translate, drop the
    # functions for which that is not established under the current assumptions, repeat until
    # stable.  Sound for terminating executions by induction on the depth of the call stack
    # (the innermost call returns fresh under no assumption about deeper calls).
    fresh_funcs: set[str] | None = None
    fresh_methods: set[str] | None = None
    for _ in range(50):
        progs = []
        for m, tree in trees.items():
            globs = set()
            for n in tree.body:
                if isinstance(n, (ast.FunctionDef, ast.ClassDef)):
                    globs.add(n.name)
                elif isinstance(n, ast.Assign):
                    globs.update(t.id for t in n.targets if isinstance(t, ast.Name))
            kw = dict(fresh_funcs=fresh_funcs if fresh_funcs is not None else _All(),
                      fresh_methods=fresh_methods if fresh_methods is not None else _All(),
                      lib_classes=lib_classes,
                      module_defs={n.name: n for n in tree.body if isinstance(n, ast.FunctionDef)})
            for n in tree.body:
                if isinstance(n, ast.FunctionDef):
                    progs.append(FuncTranslator(m, n.name, n, False, globs, **kw).run())
                elif isinstance(n, ast.ClassDef):
                    for c in n.body:
                        if isinstance(c, ast.FunctionDef):
                            progs.append(FuncTranslator(m, f"{n.name}.{c.name}", c, True, globs, **kw).run())
        nf = {p.qualname for p in progs if not p.is_method and _returns_fresh(p)}
        by_name: dict[str, list] = {}
        for p in progs:
            if p.is_method:
                by_name.setdefault(p.qualname.split(".")[-1], []).append(_returns_fresh(p))
        # a method name is summarised only if every library method of that name qualifies
        nm = {k for k, v in by_name.items() if all(v)} - MUTATING_METHODS - {"__init__", "copy", "sort"}
        if fresh_funcs is not None:
            nf &= fresh_funcs
            nm &= fresh_methods
        if nf == fresh_funcs and nm == fresh_methods:
            break
        fresh_funcs, fresh_methods = nf, nm
    else:
        raise Unsupported("return summaries did not stabilise")
    called = set()
    for m, tree in trees.items():
        for n in ast.walk(tree):
            if isinstance(n, ast.Call) and isinstance(n.func, ast.Name):
                called.add((m, n.func.id))
    out = []
    for p in progs:
        if not p.is_method and p.qualname.startswith("_") and (p.module, p.qualname) in called:
            continue   # private helper: analysed inlined at each of its call sites
        out.append(dict(
            name=f"{p.module}.{p.qualname}", nparams=p.nparams, owned0=sorted(p.owned0),
            stmts=p.stmts, vars={i: k for k, i in p.vars.items()}, taint=sorted(_taint(p)),
            pins=[r for r in p.pins if r["params"]],
        ))
    translate_all.summaries = (sorted(fresh_funcs), sorted(fresh_methods))
    return out


# ----------------------------------------------------------------------------------
# the same analysis as Model/Effects.lean, in Python, for reporting which variable / line
# offends (the decision itself is the Lean `decide`)
# ----------------------------------------------------------------------------------
def offenders(p):
    t = set(range(p["nparams"])) | set(p["owned0"])
    changed = True
    while changed:
        changed = False
        for s in p["stmts"]:
            if s[0] == "assign":
                _, x, ys, cb, _ = s
                if (cb or any(y in t for y in ys)) and x not in t:
                    t.add(x)
                    changed = True
    return [(p["vars"][s[1]], s[2]) for s in p["stmts"] if s[0] == "inplace" and s[1] in t]


def lean_text(progs) -> str:
    parts = [HEADER.format(name="effects", source="src/grid/{" + ",".join(MODULES) + "}.py")]
    parts.append("import GridVerif.Model.Effects\nimport GridVerif.Model.EffectsCalls\n\nnamespace GridVerif.Gen.Effects\nopen GridVerif.Effects\n")
    names = []
    for i, p in enumerate(progs):
        ident = f"p{i}"
        names.append(ident)
        vs = ", ".join(f"{i}={k}" for i, k in sorted(p["vars"].items()))
        parts.append(f"/-- `{p['name']}`  vars: {vs} -/")
        st = []
        for s in p["stmts"]:
            if s[0] == "assign":
                st.append(f".assign {s[1]} [{', '.join(map(str, s[2]))}] {'true' if s[3] else 'false'}")
            else:
                st.append(f".inplace {s[1]}")
        body = ",\n    ".join(st)
        parts.append(
            f"def {ident} : Prog := Prog.mk \"{p['name']}\" {p['nparams']} "
            f"[{', '.join(map(str, p['owned0']))}]\n  [\n    {body}]\n  [{', '.join(map(str, p['taint']))}]\n"
        )
    parts.append("/-- Every function and method of the library (nested functions inlined). -/")
    parts.append("def progs : List Prog := [\n  " + ",\n  ".join(
        ", ".join(names[i:i + 12]) for i in range(0, len(names), 12)) + "]\n")
    # certificates for the parameters of nested functions that have a default value
    kwnames = sorted({q["name"] for p in progs for r in p["pins"] for q in r["params"]}
                     | {k for p in progs for r in p["pins"] for _, kws, _ in r["sites"] for k in kws})
    kwid = {k: i for i, k in enumerate(kwnames)}
    rows = []
    for i, p in enumerate(progs):
        for r in p["pins"]:
            sites = ", ".join(
                f"⟨{npos}, [{', '.join(str(kwid[k]) for k in kws)}], {'true' if star else 'false'}⟩"
                for npos, kws, star in r["sites"])
            params = ", ".join(
                f"⟨{q['var']}, {'some ' + str(q['pos']) if q['pos'] is not None else 'none'}, {kwid[q['name']]}, "
                f"[{', '.join(map(str, q['ys']))}], {'true' if q['cb'] else 'false'}⟩" for q in r["params"])
            what = "; ".join(f"{q['name']}: {'pinned to its default' if q['pinned'] else 'anything'}" for q in r["params"])
            rows.append(f"  -- {p['name']}: nested `{r['fn']}` (line {r['line']}) written in `{r['encl']}`: {what}\n"
                        f"  ⟨p{i}, [{sites}], [{params}]⟩")
    parts.append("/-- Keyword / parameter names are numbered: " + ", ".join(f"{i}={k}" for k, i in kwid.items()) + " -/")
    parts.append("def kwNames : List String := [" + ", ".join(f'"{k}"' for k in kwnames) + "]\n")
    parts.append("/-- Per nested function with default-valued parameters: the program it is inlined into, the\n"
                 "shapes of the call expressions in the text of the function it is written in, and its\n"
                 "default-valued parameters (IR variable, positional index, name, what the statement emitted\n"
                 "for it may alias).  `pinRowOk` decides for each parameter whether it is pinned under these\n"
                 "shapes and checks that the matching statement is in the program. -/")
    parts.append("def pins : List PinRow := [\n" + ",\n".join(rows) + "]\n")
    parts.append("end GridVerif.Gen.Effects\n")
    return "\n".join(parts)


PINNED_SELFTEST = [
    # (source of a top-level function, {parameter of the nested function: expected to be pinned?})
    ("def t(a):\n    fs = []\n    g = a.copy()\n    fs.append(lambda x, func=g: func(x))\n    return fs[0](a)\n", {"func": True}),
    # a call in the text with two positional arguments reaches index 1
    ("def t(a):\n    f = lambda x, func=a: func\n    return f(a, a)\n", {"func": False}),
    # keyword of that name / star arguments
    ("def t(a):\n    def f(x, func=a):\n        return x\n    return f(a) + f(x=a, func=a)\n", {"func": False}),
    ("def t(a, *r):\n    def f(x, func=a):\n        return x\n    return f(*r)\n", {"func": False}),
    # the function object leaves: returned, stored on self / in a caller's dict, passed to another call
    ("def t(a):\n    def f(x, func=a):\n        return x\n    return f\n", {"func": False}),
    ("def t(a):\n    fs = [lambda x, func=a: x]\n    return fs\n", {"func": False}),
    ("def t(self, a):\n    self.f = lambda x, func=a: x\n", {"func": False}),
    ("def t(a, opts):\n    opts['f'] = lambda x, func=a: x\n", {"func": False}),
    ("def t(a):\n    def f(x, func=a):\n        return x\n    return solve(f, a)\n", {"func": False}),
    ("def t(a):\n    def f(x, func=a):\n        return x\n    return scipy.integrate.quad(f, 0, 1, args=(a,))\n", {"func": False}),
    ("def t(a):\n    def f(x, func=a):\n        return x\n    return sorted(a, key=f)\n", {"func": False}),
    ("def t(a):\n    def f(x, func=a):\n        return x\n    g = f\n    h = [g]\n    return h.pop()\n", {"func": False}),
    ("def t(a):\n    @wraps(a)\n    def f(x, func=a):\n        return x\n    return f(a)\n", {"func": False}),
    ("def t(a):\n    def f(x, func=a):\n        return x\n    return f.__call__(a, a)\n", {"func": False}),
    ("def t(a):\n    def f(x, func=a):\n        return x\n    k = lambda: f\n    return k()(a, a)\n", {"func": False}),
    # called through a local container and a loop variable only: pinned
    ("def t(a):\n    fs = []\n    for i in range(3):\n        fs.append(lambda x, i=i: x + i)\n    out = fs[0](a)\n"
     "    for f in fs[1:]:\n        out = out + f(a)\n    return out\n", {"i": True}),
    # keyword-only default, no call names it
    ("def t(a):\n    def f(x, *, w=a):\n        return x\n    return f(a) + f(a)\n", {"w": True}),
]


EFFECTS_SELFTEST = [
    # (source of a top-level function whose parameters are the caller's, must the analysis flag it?)
    # the escaped seeded change: LAPACK allowed to overwrite a view of the caller's y0
    ("def t(deriv, y0):\n    return solve(deriv, np.asarray(y0[1:], dtype=float), overwrite_b=True)\n", True),
    ("def t(deriv, y0):\n    return solve(deriv, np.array(y0[1:]), overwrite_b=True)\n", False),
    ("def t(deriv, y0):\n    return solve(deriv, np.asarray(y0[1:], dtype=float))\n", False),
    ("def t(deriv, y0):\n    return solve(deriv, y0, overwrite_b=False)\n", False),
    ("def t(deriv, y0, flag):\n    return solve(deriv, y0, overwrite_b=flag)\n", True),
    ("def t(a):\n    return scipy.linalg.lu_factor(a, overwrite_a=True, check_finite=False)\n", True),
    ("def t(a):\n    return scipy.fft.fft(a, overwrite_x=True)\n", True),
    ("def t(a):\n    return np.median(a, overwrite_input=True)\n", True),
    ("def t(a):\n    return scipy.signal.detrend(a, overwrite_data=True)\n", True),
    ("def t(a):\n    return a.byteswap(inplace=True)\n", True),
    # copy=False: the result is the argument; in-place work on it afterwards / by the callee
    ("def t(a):\n    b = np.array(a, copy=False)\n    b += 1\n    return b\n", True),
    ("def t(a):\n    b = np.array(a, copy=True)\n    b += 1\n    return b\n", False),
    ("def t(a):\n    b = a.astype(float, copy=False)\n    b[0] = 1\n    return b\n", True),
    ("def t(a):\n    b = a.astype(float)\n    b[0] = 1\n    return b\n", False),
    ("def t(a):\n    return np.nan_to_num(a, copy=False)\n", True),
    ("def t(a):\n    return np.nan_to_num(a)\n", False),
    # output operands: keyword and positional
    ("def t(a, b):\n    return np.add(a, b, out=a)\n", True),
    ("def t(a, b):\n    return np.add(a, b, a)\n", True),
    ("def t(a, b):\n    return np.add(a, b)\n", False),
    ("def t(a):\n    return np.sqrt(a, a)\n", True),
    ("def t(a, b):\n    return np.dot(a, b, b)\n", True),
    ("def t(a):\n    return a.clip(0, 1, a)\n", True),
    ("def t(a):\n    return scipy.ndimage.gaussian_filter(a, 1.0, output=a)\n", True),
    # external calls that write into an argument
    ("def t(a):\n    np.copyto(a, 0)\n", True),
    ("def t(a):\n    np.put(a, [0], 1)\n", True),
    ("def t(a):\n    np.place(a, a > 0, 1)\n", True),
    ("def t(a):\n    np.putmask(a, a > 0, 1)\n", True),
    ("def t(a):\n    np.put_along_axis(a, a, 1, 0)\n", True),
    ("def t(a):\n    np.fill_diagonal(a, 0)\n", True),
    ("def t(a):\n    np.add.at(a, [0], 1)\n", True),
    ("def t(a):\n    np.maximum.at(a, [0], 1)\n", True),
    ("def t(a):\n    np.random.shuffle(a)\n", True),
    ("def t(a):\n    rng = np.random.default_rng(0)\n    rng.shuffle(a)\n", True),
    ("def t(a):\n    a.sort()\n", True),
    ("def t(a):\n    a.partition(2)\n", True),
    ("def t(a):\n    a.fill(0)\n", True),
    ("def t(a):\n    a.put([0], 1)\n", True),
    ("def t(a):\n    a.resize((2, 2))\n", True),
    ("def t(a):\n    a.setflags(write=True)\n", True),
    ("def t(a):\n    a.itemset(0, 1)\n", True),
    ("def t(a):\n    a.__setitem__(0, 1)\n", True),
    ("def t(a):\n    a.__iadd__(1)\n", True),
    ("def t(a):\n    heapq.heappush(a, 1)\n", True),
    ("def t(a):\n    operator.iadd(a, 1)\n", True),
    # in-place arithmetic / stores through views
    ("def t(a):\n    v = a[1:]\n    v += 1\n", True),
    ("def t(a):\n    v = a.reshape(-1)\n    v[0] = 1\n", True),
    ("def t(a):\n    v = a.T\n    v *= 2\n", True),
    ("def t(a):\n    v = np.asarray(a).ravel()\n    v -= 1\n", True),
    ("def t(a):\n    a.flat[0] = 1\n", True),
    ("def t(a):\n    a.real[...] = 0\n", True),
    ("def t(a):\n    v = np.atleast_1d(np.asarray(a, dtype=float))\n    v /= 2\n", True),
    ("def t(a):\n    v = a[1:].copy()\n    v += 1\n    return v\n", False),
    ("def t(a):\n    v = np.sort(a)\n    v.sort()\n    return v\n", False),
]


def effects_selftest() -> list[str]:
    """Verdict of the analysis on small synthetic functions, one per external call / calling
    convention that can write into an argument; -> list of disagreements with the expectation."""
    bad = []
    for src, want in EFFECTS_SELFTEST:
        fn = ast.parse(src).body[0]
        try:
            tr = FuncTranslator("selftest", "t", fn, False, set()).run()
            t = _taint(tr)
            got = any(s_[0] == "inplace" and s_[1] in t for s_ in tr.stmts)
        except Unsupported as e:
            got = f"Unsupported: {e}"
        if got is not want:
            bad.append(f"{src.splitlines()[1:]}: flagged={got} expected {want}")
    return bad


def pinned_selftest() -> list[str]:
    """Decisions of `pinned_defaults` on small synthetic functions (one per clause of its
    condition); -> list of disagreements with the expectation."""
    bad = []
    for src, expect in PINNED_SELFTEST:
        fn = ast.parse(src).body[0]
        tr = FuncTranslator("selftest", "t", fn, fn.args.args[:1] and fn.args.args[0].arg == "self", {"solve"})
        tr.run()
        got = {q["name"]: q["pinned"] for r in tr.pins for q in r["params"]}
        for name, want in expect.items():
            if got.get(name) is not want:
                bad.append(f"{src.splitlines()[1:3]}: parameter {name}: pinned={got.get(name)} expected {want}")
    return bad


def generate():
    progs = translate_all()
    return write_if_changed("Effects.lean", lean_text(progs))


if __name__ == "__main__":
    ps = translate_all()
    bad = 0
    for p in ps:
        off = offenders(p)
        if off:
            bad += 1
            print(p["name"], off)
    print(len(ps), "functions,", bad, "flagged")

"""Translator for C10 (round 3): `Grid.__init__` and `LocalGrid.__init__` of src/grid/basegrid.py, statement by
statement  ->  lean/GridVerif/Gen/LocalGridCtor.lean.

`Grid.get_localgrid` ends in `LocalGrid(points[indices], self._weights[indices], center, indices)`; what a local
grid *is* (which arrays it holds, that its index array is kept, that it is a grid with no neighbour tree yet) is
decided by these two constructors.  Carried (anything else raises `Unsupported`, which the check treats like a
broken proof obligation):

* the signatures `(self, points, weights)` and `(self, points, weights, center, indices=None)`;
* `if <test>: raise ValueError(...)` / `TypeError(...)`, `<test>` built from `and` / `or` / `not` and
  - comparisons (`== != < <= > >=`) of counts: `len(<array argument>)`, `<array argument>.ndim`, integer literals
    (`len()` of a 0-d array raises TypeError: `pyLen`),
  - `<array argument>.ndim in [..]` / `not in [..]` with integer literals,
  - `<argument> is None` / `is not None`;
* `if <optional argument> is not None: <guards>` (no `else`): inside, the argument is the array;
* `super().__init__(a, b)` in `LocalGrid.__init__` (its base class must be `Grid`) -> the generated `Grid_init a b`;
* `self._x = <argument>` / `self._x = None` for the attributes of the model structures
  (`Model/LocalGridCtor.lean`); every attribute must be assigned exactly once, after the guards.

The text of the error messages is not carried: it has no behaviour.
"""
import ast

from ..common import SRC
from .util import HEADER, write_if_changed


class Unsupported(Exception):
    pass


ERRS = {"ValueError": "Err.valueError", "TypeError": "Err.typeError", "IndexError": "Err.indexError",
        "AttributeError": "Err.attributeError"}
CMP = {ast.Eq: "=", ast.NotEq: "≠", ast.Lt: "<", ast.LtE: "≤", ast.Gt: ">", ast.GtE: "≥"}
LEAN_TY = {"NdPts": "NdArg (Point K)", "NdWs": "NdArg K", "NdIdx": "NdArg Nat", "OptNdIdx": "Option (NdArg Nat)",
           "Centre": "Centre K", "Tree": "Option (List (Point K))"}
ARRAYS = ("NdPts", "NdWs", "NdIdx")


def U(n):
    return ast.unparse(n)


def is_doc(s):
    return isinstance(s, ast.Expr) and isinstance(s.value, ast.Constant) and isinstance(s.value.value, str)


class Ctor:
    def __init__(self, where, params, attrs, result, ret_ty, base_call=None):
        self.where = where
        self.ret_ty = ret_ty
        self.env = dict(params)          # python name -> (lean name, type)
        self.attrs = attrs               # python attribute -> (structure field, type)
        self.result = result             # callable(assigned: dict attr -> lean name, base lean name or None) -> lean text
        self.base_call = base_call       # None, or (lean function name, [parameter types])
        self.assigned = {}
        self.base = None
        self.ntmp = 0
        self.njoin = 0

    def bad(self, node, why=""):
        raise Unsupported(f"{self.where}: cannot carry `{U(node)[:140]}`" + (f" ({why})" if why else "")
                          + f" (line {getattr(node, 'lineno', '?')})")

    def tmp(self):
        self.ntmp += 1
        return f"t{self.ntmp}"

    # ---- counts: -> (lean text, binds) with binds = [(tmp, lean Except expression)] ----
    def count(self, n, binds):
        if isinstance(n, ast.Constant) and isinstance(n.value, int) and not isinstance(n.value, bool) and n.value >= 0:
            return str(n.value)
        if isinstance(n, ast.Attribute) and n.attr == "ndim" and isinstance(n.value, ast.Name) \
                and self.env.get(n.value.id, (None, None))[1] in ARRAYS:
            return f"{self.env[n.value.id][0]}.ndim"
        if isinstance(n, ast.Call) and U(n.func) == "len" and len(n.args) == 1 and not n.keywords \
                and isinstance(n.args[0], ast.Name) and self.env.get(n.args[0].id, (None, None))[1] in ARRAYS:
            t = self.tmp()
            binds.append((t, f"pyLen {self.env[n.args[0].id][0]}"))
            return t
        self.bad(n, "not a count the constructor model carries")

    def test(self, n, binds):
        if isinstance(n, ast.BoolOp):
            op = " ∨ " if isinstance(n.op, ast.Or) else " ∧ "
            # (every `len()` of the test is evaluated before the test: all of them raise the same TypeError)
            return "(" + op.join(self.test(v, binds) for v in n.values) + ")"
        if isinstance(n, ast.UnaryOp) and isinstance(n.op, ast.Not):
            return f"(¬ {self.test(n.operand, binds)})"
        if isinstance(n, ast.Compare) and len(n.ops) == 1:
            a, op, b = n.left, n.ops[0], n.comparators[0]
            if isinstance(op, (ast.Is, ast.IsNot)) and isinstance(b, ast.Constant) and b.value is None \
                    and isinstance(a, ast.Name) and a.id in self.env:
                ln, ty = self.env[a.id]
                if ty == "OptNdIdx":
                    return f"({ln}.isNone = {'true' if isinstance(op, ast.Is) else 'false'})"
                # an array argument in hand is not None
                return "False" if isinstance(op, ast.Is) else "True"
            if isinstance(op, (ast.In, ast.NotIn)) and isinstance(b, (ast.List, ast.Tuple)):
                x = self.count(a, binds)
                items = [self.count(e, binds) for e in b.elts]
                txt = f"{x} ∈ [{', '.join(items)}]"
                return f"({txt})" if isinstance(op, ast.In) else f"(¬ ({txt}))"
            if type(op) in CMP:
                x, y = self.count(a, binds), self.count(b, binds)
                return f"({x} {CMP[type(op)]} {y})"
        self.bad(n, "test")

    def guard(self, s):
        """`if <test>: raise E(...)` -> (binds, lean test, lean error) or None"""
        if not (isinstance(s, ast.If) and not s.orelse and len(s.body) == 1 and isinstance(s.body[0], ast.Raise)):
            return None
        exc = s.body[0].exc
        name = U(exc.func) if isinstance(exc, ast.Call) else (U(exc) if exc is not None else "")
        if name not in ERRS:
            self.bad(s.body[0], "exception class")
        binds = []
        t = self.test(s.test, binds)
        return binds, t, ERRS[name]

    def emit_binds(self, binds, ind, out):
        for t, e in binds:
            out.append(f"{ind}pyTry ({e}) fun {t} =>")

    def block(self, stmts, ind, out, tail):
        """Translate `stmts`; `tail` is the lean text that ends the block (None: the end of the constructor)."""
        stmts = [s for s in stmts if not is_doc(s)]
        if not stmts:
            if tail is not None:
                out.append(f"{ind}{tail}")
                return
            miss = [a for a in self.attrs if a not in self.assigned]
            if miss:
                raise Unsupported(f"{self.where}: attributes {miss} are never assigned")
            if self.base_call is not None and self.base is None:
                raise Unsupported(f"{self.where}: the base constructor is never called")
            out.append(f"{ind}{self.result(self.assigned, self.base)}")
            return
        s, rest = stmts[0], stmts[1:]
        src = ast.unparse(s).split("\n")[0]
        g = self.guard(s)
        if g is not None:
            binds, t, err = g
            self.emit_binds(binds, ind, out)
            exc = s.body[0].exc
            out.append(f"{ind}if {t} then .error {err} else  -- {src} raise {U(exc.func) if isinstance(exc, ast.Call) else U(exc)}")
            return self.block(rest, ind, out, tail)
        if isinstance(s, ast.If):
            # if <optional argument> is not None: <guards>
            t = s.test
            if (not s.orelse and isinstance(t, ast.Compare) and len(t.ops) == 1 and isinstance(t.ops[0], ast.IsNot)
                    and isinstance(t.comparators[0], ast.Constant) and t.comparators[0].value is None
                    and isinstance(t.left, ast.Name) and self.env.get(t.left.id, (None, None))[1] == "OptNdIdx"):
                for b in s.body:
                    if self.guard_shape(b) is None:
                        self.bad(b, "only guards are carried inside `if <argument> is not None:`")
                name = t.left.id
                ln, _ = self.env[name]
                self.njoin += 1
                k = f"k{self.njoin}"
                out.append(f"{ind}let {k} : Unit → {self.ret_ty} := fun _ =>  -- (the statements after this `if`)")
                self.block(rest, ind + "  ", out, tail)
                out.append(f"{ind}pyIfNotNone {ln} (fun {ln}_v =>  -- {src}")
                saved = dict(self.env)
                self.env[name] = (f"{ln}_v", "NdIdx")
                self.block(list(s.body), ind + "  ", out, f"{k} ())")
                self.env = saved
                out.append(f"{ind}  ({k} ())")
                return
            self.bad(s, "`if` that is neither a guard nor `if <optional argument> is not None:`")
        if isinstance(s, ast.Expr) and isinstance(s.value, ast.Call) and U(s.value.func) == "super().__init__":
            if self.base_call is None or self.base is not None:
                self.bad(s, "base constructor call")
            if self.assigned:
                self.bad(s, "the base constructor is called after attributes were set (it would overwrite them)")
            fn, want = self.base_call
            c = s.value
            if c.keywords or len(c.args) != len(want) or not all(isinstance(a, ast.Name) and a.id in self.env for a in c.args):
                self.bad(s, "base constructor arguments")
            got = [self.env[a.id] for a in c.args]
            if [ty for _, ty in got] != want:
                self.bad(s, f"base constructor arguments of kinds {[ty for _, ty in got]}, expected {want}")
            self.base = "base"
            out.append(f"{ind}pyTry ({fn} {' '.join(ln for ln, _ in got)}) fun base =>  -- {src}")
            return self.block(rest, ind, out, tail)
        if isinstance(s, ast.Assign) and len(s.targets) == 1:
            tg = s.targets[0]
            if isinstance(tg, ast.Attribute) and isinstance(tg.value, ast.Name) and tg.value.id == "self":
                if tg.attr not in self.attrs:
                    self.bad(s, "attribute not in the model structure")
                if tg.attr in self.assigned:
                    self.bad(s, "attribute assigned twice")
                if tail is not None:
                    self.bad(s, "attribute assigned inside a conditional block")
                fld, want = self.attrs[tg.attr]
                v = s.value
                if isinstance(v, ast.Constant) and v.value is None and want == "Tree":
                    e = "none"
                elif isinstance(v, ast.Name) and v.id in self.env and self.env[v.id][1] == want:
                    e = self.env[v.id][0]
                else:
                    self.bad(s, f"the attribute holds a value of kind {want}")
                ln = "self" + tg.attr
                self.assigned[tg.attr] = ln
                out.append(f"{ind}let {ln} : {LEAN_TY[want]} := {e}  -- {src}")
                return self.block(rest, ind, out, tail)
        self.bad(s, "statement form")

    def guard_shape(self, s):
        return True if (isinstance(s, ast.If) and not s.orelse and len(s.body) == 1 and isinstance(s.body[0], ast.Raise)) else None


def _method(tree, cls, name):
    for n in tree.body:
        if isinstance(n, ast.ClassDef) and n.name == cls:
            for m in n.body:
                if isinstance(m, ast.FunctionDef) and m.name == name:
                    return n, m
            raise Unsupported(f"{cls}.{name}: not defined in the class")
    raise Unsupported(f"class {cls} not found")


def _signature(m, where, names, defaults):
    a = m.args
    got = [x.arg for x in a.args]
    if got != ["self"] + names or a.vararg or a.kwarg or a.kwonlyargs or a.posonlyargs:
        raise Unsupported(f"{where}: parameters {got}, expected {['self'] + names}")
    if [U(d) for d in a.defaults] != defaults:
        raise Unsupported(f"{where}: defaults {[U(d) for d in a.defaults]}, expected {defaults}")


def render(src_dir=None) -> str:
    path = (src_dir or SRC) / "basegrid.py"
    tree = ast.parse(path.read_text())
    parts = [HEADER.format(name="localgrid_ctor", source="src/grid/basegrid.py (Grid.__init__, LocalGrid.__init__)")]
    parts.append("import GridVerif.Model.LocalGridCtor\n\nset_option linter.unusedVariables false\n\n"
                 "namespace GridVerif.Gen.LocalGridCtor\nopen GridVerif GridVerif.LocalGrid GridVerif.LocalGridCtor\n\n"
                 "section\nvariable {K : Type}\n")
    # Grid.__init__
    _, m = _method(tree, "Grid", "__init__")
    _signature(m, "Grid.__init__", ["points", "weights"], [])
    c = Ctor("Grid.__init__", {"points": ("points", "NdPts"), "weights": ("weights", "NdWs")},
             {"_points": ("upoints", "NdPts"), "_weights": ("uweights", "NdWs"), "_kdtree": ("ukdtree", "Tree")},
             lambda asg, base: ".ok { upoints := " + asg["_points"] + ", uweights := " + asg["_weights"]
             + ", ukdtree := " + asg["_kdtree"] + " }", "Except Err (GridObj K)")
    lines = []
    c.block(list(m.body), "  ", lines, None)
    parts.append(f"/-- `Grid.__init__` (src/grid/basegrid.py, line {m.lineno}): the guards on `len` / `ndim`, the three attributes. -/\n"
                 "def Grid_init (points : NdArg (Point K)) (weights : NdArg K) : Except Err (GridObj K) :=\n"
                 + "\n".join(lines) + "\n")
    # LocalGrid.__init__
    cls, m = _method(tree, "LocalGrid", "__init__")
    if [U(b) for b in cls.bases] != ["Grid"]:
        raise Unsupported(f"LocalGrid: base classes {[U(b) for b in cls.bases]}, expected ['Grid']")
    _signature(m, "LocalGrid.__init__", ["points", "weights", "center", "indices"], ["None"])
    c = Ctor("LocalGrid.__init__",
             {"points": ("points", "NdPts"), "weights": ("weights", "NdWs"), "center": ("center", "Centre"),
              "indices": ("indices", "OptNdIdx")},
             {"_center": ("ucenter", "Centre"), "_indices": ("uindices", "OptNdIdx")},
             lambda asg, base: ".ok { base := " + base + ", ucenter := " + asg["_center"] + ", uindices := " + asg["_indices"] + " }",
             "Except Err (LocalGridObj K)", base_call=("Grid_init", ["NdPts", "NdWs"]))
    lines = []
    c.block(list(m.body), "  ", lines, None)
    parts.append(f"/-- `LocalGrid.__init__` (src/grid/basegrid.py, line {m.lineno}): the guards on the index array, the base\n"
                 "constructor, the two attributes of its own. -/\n"
                 "def LocalGrid_init (points : NdArg (Point K)) (weights : NdArg K) (center : Centre K)\n"
                 "    (indices : Option (NdArg Nat)) : Except Err (LocalGridObj K) :=\n"
                 + "\n".join(lines) + "\n")
    # the class attributes must not be shadowed by properties with setters that do something else: the `center`
    # and `indices` properties are the plain getters
    for prop, priv in (("center", "_center"), ("indices", "_indices")):
        _, pm = _method(tree, "LocalGrid", prop)
        body = [s for s in pm.body if not is_doc(s)]
        if "property" not in [U(d) for d in pm.decorator_list] or len(body) != 1 or U(body[0]) != f"return self.{priv}":
            raise Unsupported(f"LocalGrid.{prop}: not the plain getter `return self.{priv}`")
    parts.append("end\n")
    parts.append(dispatch_table(src_dir or SRC))
    parts.append("end GridVerif.Gen.LocalGridCtor\n")
    return "\n".join(parts)


# ----------------------------------------------------------------------------------------------------
# which class's method does every grid class execute?  (round 4)
# ----------------------------------------------------------------------------------------------------
DISPATCH_METHODS = ("get_localgrid", "__getitem__")
DISPATCH_PROPS = ("points", "weights")


def dispatch_rows(src_dir):
    """Every class of the non-test modules of src/grid that derives from `Grid` (transitively, bases resolved by
    name), in module / source order, with the class whose `get_localgrid`, `__getitem__`, `points` getter, `points`
    setter, `weights` setter it executes ("-": the attribute has no setter in the class that defines it last)."""
    classes, order = {}, []
    for path in sorted(src_dir.glob("*.py")):
        tree = ast.parse(path.read_text())
        for n in tree.body:
            if isinstance(n, ast.ClassDef):
                if n.name in classes:
                    raise Unsupported(f"class {n.name} is defined twice ({classes[n.name][0]}, {path.name})")
                bases = []
                for b in n.bases:
                    bases.append(b.id if isinstance(b, ast.Name) else (b.attr if isinstance(b, ast.Attribute) else U(b)))
                classes[n.name] = (path.name, n, bases)
                order.append(n.name)
        for n in ast.walk(tree):
            # a class statement anywhere else (nested, conditional) or an assignment of these methods from outside
            if isinstance(n, ast.Assign):
                for t in n.targets:
                    # (`obj.points = value` on an instance is the setter; binding a *method* name, or a property on
                    #  something spelled like a class / type(...) / __class__, re-binds the dispatch)
                    if isinstance(t, ast.Attribute) and (t.attr in DISPATCH_METHODS or (
                            t.attr in DISPATCH_PROPS and (U(t.value)[:1].isupper() or "__class__" in U(t.value) or "type(" in U(t.value)))):
                        raise Unsupported(f"{path.name}:{n.lineno}: `{U(t)} = …` re-binds a dispatched method")
            if isinstance(n, ast.Call) and U(n.func) == "setattr" and len(n.args) >= 2 and isinstance(n.args[1], ast.Constant) \
                    and n.args[1].value in DISPATCH_METHODS + DISPATCH_PROPS:
                raise Unsupported(f"{path.name}:{n.lineno}: setattr(…, {n.args[1].value!r}, …)")

    def mro(c):
        out, cur = [], c
        while cur in classes:
            out.append(cur)
            bs = [b for b in classes[cur][2] if b in classes]
            if len(bs) > 1:
                raise Unsupported(f"class {cur}: several bases inside the package ({bs})")
            cur = bs[0] if bs else None
        return out

    def defs(c):
        """name -> ('method'|'getter'|'setter:<class whose property is extended>', node) for the class body"""
        out = {}
        for m in classes[c][1].body:
            if isinstance(m, ast.FunctionDef):
                decs = [U(d) for d in m.decorator_list]
                if "property" in decs:
                    out.setdefault(m.name, {})["getter"] = c
                for d in decs:
                    if d.endswith(".setter"):
                        owner = d[:-len(".setter")].split(".")
                        out.setdefault(m.name, {})["setter"] = c
                        if len(owner) == 2:           # @Base.points.setter: the getter of Base's property is kept
                            out[m.name].setdefault("getter_from", owner[0])
                if not decs:
                    out.setdefault(m.name, {})["method"] = c
            elif isinstance(m, ast.Assign):
                for t in m.targets:
                    if isinstance(t, ast.Name) and t.id in DISPATCH_METHODS + DISPATCH_PROPS:
                        raise Unsupported(f"class {c}: `{t.id} = …` in the class body")
        return out
    rows = []
    for c in order:
        chain = mro(c)
        if "Grid" not in chain:
            continue
        dd = {k: defs(k) for k in chain}
        row = [c, classes[c][0][:-3]]
        for meth in DISPATCH_METHODS:
            row.append(next((k for k in chain if "method" in dd[k].get(meth, {})), "-"))
        for prop in DISPATCH_PROPS:
            k0 = next((k for k in chain if prop in dd[k]), None)
            if k0 is None:
                row += ["-", "-"]
                continue
            info = dd[k0][prop]
            getter = info.get("getter")
            if getter is None and "getter_from" in info:
                base = info["getter_from"]
                getter = next((k for k in mro(base) if "getter" in dd.get(k, defs(k)).get(prop, {})), "-")
            row += [getter or "-", info.get("setter", "-")]
        rows.append(row)
    return rows


def dispatch_table(src_dir):
    rows = dispatch_rows(src_dir)
    body = ",\n   ".join("(" + ", ".join(f'"{x}"' for x in r) + ")" for r in rows)
    return ("/-- Every class of src/grid deriving from `Grid`: (class, module, class whose `get_localgrid` it executes, class\n"
            "whose `__getitem__` it executes, `points` getter, `points` setter, `weights` getter, `weights` setter); `-`: none. -/\n"
            "def gridDispatch : List (String × String × String × String × String × String × String × String) :=\n  ["
            + body + "]\n")


def generate():
    return write_if_changed("LocalGridCtor.lean", render())


if __name__ == "__main__":
    import sys
    from pathlib import Path
    print(render(Path(sys.argv[1]) if len(sys.argv) > 1 else None))

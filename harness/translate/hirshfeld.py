"""Translator: grid/hirshfeld.py -> Gen/Hirshfeld.lean, statement by statement.

`HirshfeldWeights._load_npz_proatom`, `_get_proatom_density`, `generate_proatom` and `__call__` are parsed (ast) and
carried into `do` blocks over `Except Err` in the primitives of `Model/BeckePy.lean`.  Generated text:

* the file a pro-atom is read from: package string, the f-string `a{num:03d}.npz` (literal pieces and format spec), the
  keys `"r"`, `"dn"` and the order in which they are returned;
* `CubicSpline(rad, rho, bc_type="natural", extrapolate=True)` as the *named* primitive `env.cubicSplineNatural rad rho`
  (argument order and the two keywords are checked), evaluated at the distances, flattened;
* the distance `np.linalg.norm(points[:, None] - coord, axis=-1)` and the argument order of the calls between the methods
  (bound against the callee's signature);
* `__call__`: the dtype guard, the two zero arrays, the loop `for index, atnum in enumerate(atnums)` with
  `promolecule += proatom`, the bounds `indices[index]`, `indices[index + 1]`, `aim_weights[start:end] = proatom[start:end]`,
  the final `aim_weights /= promolecule`.

The directory listing of `grid/data/proatoms` is dumped beside it (which elements have a pro-atom).
Anything else raises `Untranslatable`.
"""
import ast
import json
import re

from ..common import SRC
from .becke import Untranslatable, _body, _src, resolve_call
from .util import HEADER, write_if_changed


def _meth(cls, name):
    for n in cls.body:
        if isinstance(n, ast.FunctionDef) and n.name == name:
            return n
    raise Untranslatable(f"HirshfeldWeights.{name} not found")


def _params(fn, want):
    got = [a.arg for a in fn.args.args]
    if got != want or fn.args.kwonlyargs or fn.args.vararg or fn.args.kwarg or fn.args.defaults:
        raise Untranslatable(f"{fn.name}: signature {got}")


def _is_static(fn):
    return any(_src(d) == "staticmethod" for d in fn.decorator_list)


def _lean_str(s):
    return json.dumps(s, ensure_ascii=True)


def _fstring(e, var):
    """f'a{num:03d}.npz' -> Lean string expression"""
    if not isinstance(e, ast.JoinedStr):
        raise Untranslatable(f"file name `{_src(e)}` is not an f-string")
    parts = []
    for v in e.values:
        if isinstance(v, ast.Constant) and isinstance(v.value, str):
            parts.append(_lean_str(v.value))
        elif isinstance(v, ast.FormattedValue):
            if _src(v.value) != var or v.conversion != -1 or v.format_spec is None:
                raise Untranslatable(f"f-string field `{_src(v)}`")
            spec = "".join(x.value for x in v.format_spec.values if isinstance(x, ast.Constant))
            m = re.fullmatch(r"0(\d+)d", spec)
            if not m or len(v.format_spec.values) != 1:
                raise Untranslatable(f"format spec `{spec}`")
            parts.append(f"pyFormatD0 {int(m.group(1))} {var}")
        else:
            raise Untranslatable(f"f-string part `{_src(v)}`")
    return "(" + " ++ ".join(parts) + ")"


def _callee(e, cls_name="HirshfeldWeights"):
    f = _src(e.func)
    for pre in (cls_name + ".", "self.", "cls."):
        if f.startswith(pre):
            return f[len(pre):]
    return None


def lean_text():
    src = (SRC / "hirshfeld.py").read_text()
    tree = ast.parse(src)
    cls = next((n for n in tree.body if isinstance(n, ast.ClassDef) and n.name == "HirshfeldWeights"), None)
    if cls is None:
        raise Untranslatable("class HirshfeldWeights not found")
    imports = {a.asname or a.name for n in tree.body if isinstance(n, ast.ImportFrom) for a in n.names}
    if "CubicSpline" not in imports or "files" not in imports:
        raise Untranslatable("imports of CubicSpline / files")

    def C(ind, st, head=False):
        s = _src(st).split("\n")[0] if head else _src(st)
        return ["  " * ind + "-- " + ln for ln in s.split("\n")]

    out = []
    # ---- _load_npz_proatom ------------------------------------------------------------------------------------
    fn = _meth(cls, "_load_npz_proatom")
    _params(fn, ["num"])
    b = _body(fn)
    if len(b) != 2 or not _is_static(fn):
        raise Untranslatable("_load_npz_proatom: shape")
    v = b[0].value if isinstance(b[0], ast.Assign) and _src(b[0].targets[0]) == "data" else None
    ok = (isinstance(v, ast.Call) and _src(v.func) == "np.load" and len(v.args) == 1 and not v.keywords
          and isinstance(v.args[0], ast.Call) and isinstance(v.args[0].func, ast.Attribute) and v.args[0].func.attr == "joinpath"
          and len(v.args[0].args) == 1 and not v.args[0].keywords
          and isinstance(v.args[0].func.value, ast.Call) and _src(v.args[0].func.value.func) == "files"
          and len(v.args[0].func.value.args) == 1 and isinstance(v.args[0].func.value.args[0], ast.Constant)
          and isinstance(v.args[0].func.value.args[0].value, str))
    if not ok:
        raise Untranslatable(f"_load_npz_proatom: `{_src(b[0])}`")
    pkg = v.args[0].func.value.args[0].value
    name = _fstring(v.args[0].args[0], "num")
    r = b[1]
    ok = (isinstance(r, ast.Return) and isinstance(r.value, ast.Tuple) and len(r.value.elts) == 2 and all(
        isinstance(x, ast.Subscript) and _src(x.value) == "data" and isinstance(x.slice, ast.Constant) and isinstance(x.slice.value, str)
        for x in r.value.elts))
    if not ok:
        raise Untranslatable(f"_load_npz_proatom: `{_src(r)}`")
    k1, k2 = (x.slice.value for x in r.value.elts)
    out.append("/-- `HirshfeldWeights._load_npz_proatom(num)`. -/")
    out.append("def load_npz_proatom (env : ProEnv K) (num : Int) : Except Err (List K × List K) := do")
    out += C(1, b[0])
    out.append(f"  let data ← env.npLoad {_lean_str(pkg)} {name}")
    out += C(1, r)
    out.append(f"  return ((← npzGet data {_lean_str(k1)}), (← npzGet data {_lean_str(k2)}))\n")
    out.append("/-- the file a pro-atom of atomic number `num` is read from (the argument of `joinpath`). -/")
    out.append(f"def proatomFile (num : Int) : String :=\n  {name}\n")
    out.append(f"/-- the package of the pro-atom files. -/\ndef proatomPackage : String :=\n  {_lean_str(pkg)}\n")

    # ---- _get_proatom_density ---------------------------------------------------------------------------------
    fn = _meth(cls, "_get_proatom_density")
    _params(fn, ["num", "coords_radial"])
    b = _body(fn)
    if len(b) != 4 or not _is_static(fn):
        raise Untranslatable("_get_proatom_density: shape")
    s0, s1, s2, s3 = b
    ok = (isinstance(s0, ast.Assign) and isinstance(s0.targets[0], ast.Tuple) and len(s0.targets[0].elts) == 2
          and all(isinstance(x, ast.Name) for x in s0.targets[0].elts) and isinstance(s0.value, ast.Call) and _callee(s0.value) == "_load_npz_proatom")
    if not ok:
        raise Untranslatable(f"_get_proatom_density: `{_src(s0)}`")
    a1, a2 = (x.id for x in s0.targets[0].elts)
    bd = resolve_call(s0.value, ["num"], "_get_proatom_density")
    if _src(bd.get("num")) != "num":
        raise Untranslatable(f"_get_proatom_density: `{_src(s0.value)}`")
    v = s1.value if isinstance(s1, ast.Assign) and isinstance(s1.targets[0], ast.Name) else None
    ok = isinstance(v, ast.Call) and _src(v.func) == "CubicSpline"
    if not ok:
        raise Untranslatable(f"_get_proatom_density: `{_src(s1)}`")
    bd = resolve_call(v, ["x", "y", "axis", "bc_type", "extrapolate"], "_get_proatom_density")
    kw = {k: _src(bd[k]) for k in bd}
    if set(kw) != {"x", "y", "bc_type", "extrapolate"} or kw["bc_type"] != "'natural'" or kw["extrapolate"] != "True" \
            or not {kw["x"], kw["y"]} <= {a1, a2}:
        raise Untranslatable(f"_get_proatom_density: spline call `{_src(v)}` (only bc_type='natural', extrapolate=True is carried)")
    sp = s1.targets[0].id
    v2 = s2.value if isinstance(s2, ast.Assign) and isinstance(s2.targets[0], ast.Name) else None
    ok = (isinstance(v2, ast.Call) and isinstance(v2.func, ast.Attribute) and v2.func.attr == "flatten" and not v2.args and not v2.keywords
          and isinstance(v2.func.value, ast.Call) and _src(v2.func.value.func) == sp and [_src(a) for a in v2.func.value.args] == ["coords_radial"]
          and not v2.func.value.keywords)
    if not ok:
        raise Untranslatable(f"_get_proatom_density: `{_src(s2)}`")
    o = s2.targets[0].id
    if not (isinstance(s3, ast.Return) and _src(s3.value) == o):
        raise Untranslatable(f"_get_proatom_density: `{_src(s3)}`")
    out.append("/-- `HirshfeldWeights._get_proatom_density(num, coords_radial)`. -/")
    out.append("def get_proatom_density (env : ProEnv K) (num : Int) (coords_radial : List K) : Except Err (List K) := do")
    out += C(1, s0)
    out.append(f"  let ({a1}, {a2}) ← load_npz_proatom env num")
    out += C(1, s1)
    out.append(f"  let {sp} := env.cubicSplineNatural {kw['x']} {kw['y']}")
    out += C(1, s2)
    out.append(f"  let {o} : List K := npFlatten (coords_radial.map {sp})")
    out += C(1, s3)
    out.append(f"  return {o}\n")

    # ---- generate_proatom -------------------------------------------------------------------------------------
    fn = _meth(cls, "generate_proatom")
    _params(fn, ["points", "coord", "num"])
    b = _body(fn)
    if len(b) != 2 or not _is_static(fn):
        raise Untranslatable("generate_proatom: shape")
    if _src(b[0]) != "dist = np.linalg.norm(points[:, None] - coord, axis=-1)":
        raise Untranslatable(f"generate_proatom: `{_src(b[0])}`")
    r = b[1]
    if not (isinstance(r, ast.Return) and isinstance(r.value, ast.Call) and _callee(r.value) == "_get_proatom_density"):
        raise Untranslatable(f"generate_proatom: `{_src(r)}`")
    bd = resolve_call(r.value, ["num", "coords_radial"], "generate_proatom")
    if {k: _src(x) for k, x in bd.items()} != {"num": "num", "coords_radial": "dist"}:
        raise Untranslatable(f"generate_proatom: arguments of `{_src(r.value)}`")
    out.append("/-- `HirshfeldWeights.generate_proatom(points, coord, num)`. -/")
    out.append("def generate_proatom (env : ProEnv K) (points : List (V3 K)) (coord : V3 K) (num : Int) : Except Err (List K) := do")
    out += C(1, b[0])
    out.append("  let dist : List K := points.map fun p => dist3 p coord")
    out += C(1, r)
    out.append("  return (← get_proatom_density env num dist)\n")

    # ---- __call__ ---------------------------------------------------------------------------------------------
    fn = _meth(cls, "__call__")
    _params(fn, ["self", "points", "atcoords", "atnums", "indices"])
    b = _body(fn)
    if len(b) != 6:
        raise Untranslatable(f"__call__: {len(b)} statements")
    g, z1, z2, loop, dv, rt = b
    ok = (isinstance(g, ast.If) and not g.orelse and _src(g.test) == "atnums.dtype != int" and len(g.body) == 1 and isinstance(g.body[0], ast.Raise)
          and _src(g.body[0].exc.func) == "TypeError")
    if not ok:
        raise Untranslatable(f"__call__: `{_src(g)[:60]}`")
    names = []
    for z in (z1, z2):
        if not (isinstance(z, ast.Assign) and isinstance(z.targets[0], ast.Name) and _src(z.value) == "np.zeros(len(points))"):
            raise Untranslatable(f"__call__: `{_src(z)}`")
        names.append(z.targets[0].id)
    ok = (isinstance(loop, ast.For) and not loop.orelse and _src(loop.iter) == "enumerate(atnums)" and isinstance(loop.target, ast.Tuple)
          and len(loop.target.elts) == 2 and len(loop.body) == 4)
    if not ok:
        raise Untranslatable(f"__call__: loop `{_src(loop)[:60]}`")
    iv, zv = (_src(x) for x in loop.target.elts)
    l0, l1, l2, l3 = loop.body
    ok = isinstance(l0, ast.Assign) and isinstance(l0.targets[0], ast.Name) and isinstance(l0.value, ast.Call) and _callee(l0.value) == "generate_proatom"
    if not ok:
        raise Untranslatable(f"__call__: `{_src(l0)}`")
    pa = l0.targets[0].id
    bd = {k: _src(x) for k, x in resolve_call(l0.value, ["points", "coord", "num"], "__call__").items()}
    if bd != {"points": "points", "coord": f"atcoords[{iv}]", "num": zv}:
        raise Untranslatable(f"__call__: arguments of `{_src(l0.value)}`")
    ok = isinstance(l1, ast.AugAssign) and isinstance(l1.op, ast.Add) and _src(l1.target) in names and _src(l1.value) == pa
    if not ok:
        raise Untranslatable(f"__call__: `{_src(l1)}`")
    pm = _src(l1.target)
    aw = [n for n in names if n != pm][0]
    ok = (isinstance(l2, ast.Assign) and isinstance(l2.targets[0], ast.Tuple) and len(l2.targets[0].elts) == 2 and isinstance(l2.value, ast.Tuple)
          and len(l2.value.elts) == 2)
    if not ok:
        raise Untranslatable(f"__call__: `{_src(l2)}`")
    st_, en_ = (_src(x) for x in l2.targets[0].elts)
    idx = []
    for x in l2.value.elts:
        if not (isinstance(x, ast.Subscript) and _src(x.value) == "indices"):
            raise Untranslatable(f"__call__: `{_src(x)}`")
        sl = _src(x.slice)
        if sl == iv:
            idx.append(iv)
        elif sl == f"{iv} + 1":
            idx.append(f"({iv} + (1 : Int))")
        else:
            raise Untranslatable(f"__call__: index `{sl}`")
    if _src(l3) != f"{aw}[{st_}:{en_}] = {pa}[{st_}:{en_}]":
        raise Untranslatable(f"__call__: `{_src(l3)}`")
    if _src(dv) != f"{aw} /= {pm}" or _src(rt) != f"return {aw}":
        raise Untranslatable(f"__call__: `{_src(dv)}` / `{_src(rt)}`")
    en_l = en_ + "_" if en_ == "end" else en_
    out.append("/-- `HirshfeldWeights.__call__(self, points, atcoords, atnums, indices)`. -/")
    out.append("def call (env : ProEnv K) (points : List (V3 K)) (atcoords : List (V3 K)) (atnums : AtnumsArg) (indices : List Int) :")
    out.append("    Except Err (List K) := do")
    out += C(1, g, True)
    out.append("  if !(atnums.dtypeIsInt) then\n    throw Err.typeError")
    out += C(1, z1)
    out.append(f"  let {z1.targets[0].id} : List K := npZeros points.length")
    out += C(1, z2)
    out.append(f"  let {z2.targets[0].id} : List K := npZeros points.length")
    out += C(1, loop, True)
    out.append(f"  let ({aw}, {pm}) ← (pyEnumerate atnums.vals).foldlM (fun (({aw}, {pm}) : List K × List K) (({iv}, {zv}) : Int × Int) => do")
    out += C(2, l0)
    out.append(f"    let {pa} ← generate_proatom env points (← pyGetItem atcoords {iv}) {zv}")
    out += C(2, l1)
    out.append(f"    let {pm} ← npAddInto {pm} {pa}")
    out += C(2, l2)
    out.append(f"    let {st_} ← pyGetItem indices {idx[0]}")
    out.append(f"    let {en_l} ← pyGetItem indices {idx[1]}")
    out += C(2, l3)
    out.append(f"    let {aw} ← npSliceSet {aw} {st_} {en_l} (pySlice {pa} {st_} {en_l})")
    out.append(f"    pure ({aw}, {pm})) ({aw}, {pm})")
    out += C(1, dv)
    out.append(f"  let {aw} ← npDivInto {aw} {pm}")
    out += C(1, rt)
    out.append(f"  return {aw}\n")

    files = sorted(p.name for p in (SRC / "data" / "proatoms").iterdir() if p.suffix == ".npz")
    P = [HEADER.format(name="hirshfeld", source="src/grid/hirshfeld.py (HirshfeldWeights) and the listing of src/grid/data/proatoms")]
    P.append("import GridVerif.Model.BeckePy\n")
    P.append("set_option linter.unusedVariables false\n")
    P.append("namespace GridVerif.Gen.Hirshfeld")
    P.append("open GridVerif.Becke GridVerif.BeckePy\n")
    P.append("/-- the `.npz` files shipped in `grid/data/proatoms` (sorted). -/")
    P.append("def proatomFiles : List String := [" + ", ".join(_lean_str(f) for f in files) + "]\n")
    P.append("section")
    P.append("variable {K : Type} [Add K] [Sub K] [Mul K] [Div K] [NatCast K] [Elem K]\n")
    P += out
    P.append("end\nend GridVerif.Gen.Hirshfeld\n")
    return "\n".join(P)


def generate():
    return write_if_changed("Hirshfeld.lean", lean_text())

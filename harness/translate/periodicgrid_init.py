"""Translator for C11:  the warning block of `PeriodicGrid.__init__` (src/grid/periodicgrid.py)
->  Gen/PeriodicGridInit.lean.

harness/translate/localgrid.py carries the constructor statement by statement but treats the block

    if len(frac_intvls) > 0:
        intvl_max = (frac_intvls[:, 1] - frac_intvls[:, 0]).max()
        if intvl_max > 1.1:
            warnings.warn(..., PeriodicGridWarning, stacklevel=2)

as "no effect on the object" (it only checks that).  The block is documented behaviour of the class
("a warning is raised when the fractional coordinates span an interval wider than 1.1 … This will
never happen when wrap==True"), so it is carried here as a definition of its own:

  * `PeriodicGrid_init_warning <free variables>` : what the block raises / whether it warns, the
    category and the stack level (vocabulary: Model/PeriodicInitPy.lean, Model/LocalGridPy.lean);
  * `PeriodicGrid_init_warning_site` : where the block sits in the constructor and which attribute
    of the object each of its free variables is (`frac_intvls` must be the value just assigned to
    `self._frac_intvls`), so that theorems can be stated about the constructed object.

Closed vocabulary; anything else raises `Unsupported` (a broken obligation for the runner).
"""
import ast
from fractions import Fraction

from ..common import SRC
from .localgrid import Unsupported, U, is_doc, norm
from .util import HEADER, write_if_changed

WHERE = "PeriodicGrid.__init__ (warning block)"

# attribute of the object -> (type of the value, Lean type)
ATTR_TY = {"_frac_intvls": "Intv", "_spacings": "KVec"}
LEAN_TY = {"Intv": "List (K × K)", "KVec": "List K", "K": "K"}
CMP = {ast.Gt: ">", ast.GtE: "≥", ast.Lt: "<", ast.LtE: "≤", ast.Eq: "=", ast.NotEq: "≠"}
ARITH = {ast.Add: "+", ast.Sub: "-", ast.Mult: "*", ast.Div: "/"}
VEC = {ast.Add: "npAdd", ast.Sub: "npSub"}
BUILTINS = {"len", "warnings", "abs"}


def bad(node, why=""):
    txt = U(node) if isinstance(node, ast.AST) else str(node)
    raise Unsupported(f"{WHERE}: cannot carry `{txt[:160]}`" + (f" ({why})" if why else ""))


def paren(s):
    return s if (s.isidentifier() or (s.startswith("(") and s.endswith(")") and s.count("(") == 1)) else f"({s})"


def lit(node):
    """A Python int / float literal as an exact quotient of naturals (the decimal text of the source)."""
    v = node.value
    if isinstance(v, bool) or not isinstance(v, (int, float)):
        bad(node, "literal")
    if isinstance(v, float) and (v != v or v in (float("inf"), float("-inf"))):
        bad(node, "literal")
    q = Fraction(repr(v)) if isinstance(v, float) else Fraction(v)
    if q < 0 or q.numerator >= 2 ** 53 or q.denominator >= 2 ** 53:
        bad(node, "literal is not a quotient of two exactly representable naturals")
    if q.denominator == 1:
        return f"(({q.numerator} : Nat) : K)"
    return f"((({q.numerator} : Nat) : K) / (({q.denominator} : Nat) : K))"


class Block:
    def __init__(self, env):
        self.env = dict(env)      # python name -> type
        self.ntmp = 0

    def tmp(self):
        self.ntmp += 1
        return f"t{self.ntmp}"

    # -> (lean text, type, binds);  bind = (tmp, lean option expression, error)
    def expr(self, e):
        if isinstance(e, ast.Name):
            if e.id not in self.env:
                bad(e, "unknown name")
            return e.id, self.env[e.id], []
        if isinstance(e, ast.Constant):
            return lit(e), "K", []
        if isinstance(e, ast.Subscript):
            v, tv, bv = self.expr(e.value)
            s = U(e.slice)
            if tv == "Intv" and s in (":, 0", "(:, 0)"):
                return f"npCol0 {paren(v)}", "KVec", bv
            if tv == "Intv" and s in (":, 1", "(:, 1)"):
                return f"npCol1 {paren(v)}", "KVec", bv
            bad(e)
        if isinstance(e, ast.BinOp) and type(e.op) in ARITH:
            x, tx, bx = self.expr(e.left)
            y, ty, by = self.expr(e.right)
            if tx == ty == "KVec" and type(e.op) in VEC:
                return f"{VEC[type(e.op)]} {paren(x)} {paren(y)}", "KVec", bx + by
            if tx == ty == "K":
                return f"({x} {ARITH[type(e.op)]} {y})", "K", bx + by
            bad(e, f"operand kinds {tx}, {ty}")
        if isinstance(e, ast.Call) and isinstance(e.func, ast.Attribute) and e.func.attr == "max" and not e.args and not e.keywords:
            x, tx, bx = self.expr(e.func.value)
            if tx != "KVec":
                bad(e, f".max() of a value of kind {tx}")
            t = self.tmp()
            return t, "K", bx + [(t, f"npMax {paren(x)}", "Err.valueError")]
        bad(e)

    def cond(self, t):
        if isinstance(t, ast.BoolOp):
            op = " ∧ " if isinstance(t.op, ast.And) else " ∨ "
            return "(" + op.join(self.cond(v) for v in t.values) + ")"
        if isinstance(t, ast.UnaryOp) and isinstance(t.op, ast.Not):
            return "¬ " + paren(self.cond(t.operand))
        if isinstance(t, ast.Compare) and len(t.ops) == 1 and type(t.ops[0]) in CMP:
            a, b, op = t.left, t.comparators[0], CMP[type(t.ops[0])]
            # len(X) <op> n
            if isinstance(a, ast.Call) and U(a.func) == "len" and len(a.args) == 1 and not a.keywords \
                    and isinstance(b, ast.Constant) and isinstance(b.value, int) and not isinstance(b.value, bool) and b.value >= 0:
                x, tx, bx = self.expr(a.args[0])
                if bx or tx not in ("Intv", "KVec"):
                    bad(t)
                return f"{paren(x)}.length {op} {b.value}"
            x, tx, bx = self.expr(a)
            y, ty, by = self.expr(b)
            if bx or by or tx != "K" or ty != "K":
                bad(t, "comparison of values that are not plain floats")
            return f"{x} {op} {y}"
        bad(t, "condition")

    def warn(self, call):
        """warnings.warn(message, category, stacklevel=n) -> lean text"""
        args = list(call.args)
        kw = {k.arg: k.value for k in call.keywords}
        if not args:
            bad(call, "warning without a message")
        msg = args[0]
        for n in ast.walk(msg):
            if isinstance(n, (ast.Call, ast.Await, ast.Yield, ast.NamedExpr)):
                bad(call, "the message is not a plain (formatted) string")
            if isinstance(n, ast.Name) and n.id not in self.env:
                bad(call, f"the message reads the unknown name {n.id}")
        cat = args[1] if len(args) > 1 else kw.pop("category", None)
        if cat is None:
            cat_name = "UserWarning"
        elif isinstance(cat, ast.Name):
            cat_name = cat.id
        else:
            bad(call, "warning category")
        if len(args) > 2:
            sl = args[2]
        else:
            sl = kw.pop("stacklevel", ast.Constant(value=1))
        if kw or len(args) > 3:
            bad(call, "arguments of warnings.warn")
        if not (isinstance(sl, ast.Constant) and isinstance(sl.value, int) and not isinstance(sl.value, bool) and sl.value >= 0):
            bad(call, "stacklevel")
        return f'pyWarn "{cat_name}" {sl.value}', cat_name, sl.value

    def block(self, stmts, ind, out):
        stmts = [s for s in stmts if not is_doc(s)]
        if not stmts:
            out.append(f"{ind}pyNoWarn")
            return
        s, rest = stmts[0], stmts[1:]
        src = norm(s).split("\n")[0]
        if isinstance(s, ast.Expr) and isinstance(s.value, ast.Call) and U(s.value.func) == "warnings.warn":
            if rest:
                bad(rest[0], "statements after a warning in the same branch")
            txt, cat, lvl = self.warn(s.value)
            out.append(f"{ind}{txt}  -- warnings.warn(…, {cat}, stacklevel={lvl})")
            return
        if isinstance(s, ast.Assign) and len(s.targets) == 1 and isinstance(s.targets[0], ast.Name):
            e, ty, binds = self.expr(s.value)
            for (t, le, err) in binds:
                out.append(f"{ind}pyOpt {paren(le)} (some (Except.error {err})) fun {t} =>")
            name = s.targets[0].id
            if name in self.env and self.env[name] != ty:
                bad(s, "variable changes its kind")
            self.env[name] = ty
            out.append(f"{ind}let {name} : {LEAN_TY[ty]} := {e}  -- {src}")
            return self.block(rest, ind, out)
        if isinstance(s, ast.If):
            c = self.cond(s.test)
            env0 = dict(self.env)
            out.append(f"{ind}if {c} then  -- if {U(s.test)}:")
            self.block(list(s.body) + rest, ind + "  ", out)
            self.env = dict(env0)
            out.append(f"{ind}else")
            self.block(list(s.orelse) + rest, ind + "  ", out)
            self.env = env0
            return
        bad(s, "statement form")


def has_warn(node):
    return any(isinstance(n, ast.Call) and U(n.func) == "warnings.warn" for n in ast.walk(node))


def assigned_names(node):
    out = set()
    for n in ast.walk(node):
        if isinstance(n, ast.Name) and isinstance(n.ctx, ast.Store):
            out.add(n.id)
    return out


def find_block(src_dir):
    tree = ast.parse((src_dir / "periodicgrid.py").read_text())
    cls = next((n for n in tree.body if isinstance(n, ast.ClassDef) and n.name == "PeriodicGrid"), None)
    if cls is None:
        raise Unsupported("class PeriodicGrid not found")
    init = next((m for m in cls.body if isinstance(m, ast.FunctionDef) and m.name == "__init__"), None)
    if init is None:
        raise Unsupported("PeriodicGrid.__init__ not found")
    body = [s for s in init.body if not is_doc(s)]
    idx = [i for i, s in enumerate(body) if has_warn(s)]
    if len(idx) != 1 or not isinstance(body[idx[0]], ast.If):
        raise Unsupported(f"{WHERE}: expected exactly one top-level `if` block issuing warnings in the constructor, found {len(idx)}")
    i = idx[0]
    blk = body[i]
    # no effect besides warnings: only local assignments, ifs, warnings.warn
    local = assigned_names(blk)
    for n in ast.walk(blk):
        if isinstance(n, (ast.Attribute,)) and isinstance(n.ctx, ast.Store):
            bad(n, "the block assigns an attribute")
        if isinstance(n, (ast.Return, ast.Raise, ast.For, ast.While, ast.Try, ast.With, ast.AugAssign, ast.Delete)):
            bad(n, "statement form inside the block")
    for later in body[i + 1:]:
        for n in ast.walk(later):
            if isinstance(n, ast.Name) and isinstance(n.ctx, ast.Load) and n.id in local:
                bad(later, f"a local of the warning block ({n.id}) is used afterwards")
    # free variables = values of attributes just assigned
    free = []
    for n in ast.walk(blk):
        if isinstance(n, ast.Name) and isinstance(n.ctx, ast.Load) and n.id not in free:
            free.append(n.id)
    cats = set()
    for n in ast.walk(blk):
        if isinstance(n, ast.Call) and U(n.func) == "warnings.warn":
            for a in n.args[1:2]:
                if isinstance(a, ast.Name):
                    cats.add(a.id)
            for k in n.keywords:
                if k.arg == "category" and isinstance(k.value, ast.Name):
                    cats.add(k.value.id)
    params, site = [], []
    first_assigned = {}
    for v in free:
        if v in BUILTINS or v in cats:
            continue
        # (a local of the block is assigned before it is read: checked by the typed translation itself)
        if v in local:
            continue
        # the last statement `self._X = v` before the block, v not re-assigned in between
        j = next((j for j in range(i - 1, -1, -1)
                  if isinstance(body[j], ast.Assign) and len(body[j].targets) == 1 and isinstance(body[j].targets[0], ast.Attribute)
                  and U(body[j].targets[0].value) == "self" and isinstance(body[j].value, ast.Name) and body[j].value.id == v), None)
        if j is None:
            raise Unsupported(f"{WHERE}: the block reads `{v}`, which is not the value just assigned to an attribute of the object")
        for between in body[j + 1:i]:
            if v in assigned_names(between):
                raise Unsupported(f"{WHERE}: `{v}` is re-assigned between `{norm(body[j])}` and the warning block")
        attr = body[j].targets[0].attr
        # … and the attribute is not re-assigned afterwards either
        for later in body[j + 1:]:
            for n in ast.walk(later):
                if isinstance(n, ast.Attribute) and isinstance(n.ctx, ast.Store) and U(n.value) == "self" and n.attr == attr:
                    raise Unsupported(f"{WHERE}: self.{attr} is assigned again after `{norm(body[j])}`")
        if attr not in ATTR_TY:
            raise Unsupported(f"{WHERE}: attribute self.{attr} read by the block is not a per-lattice-vector array of the model")
        params.append((v, ATTR_TY[attr]))
        site.append((f"parameter {v}", f"self.{attr}"))
        first_assigned[v] = j
    if not params:
        raise Unsupported(f"{WHERE}: the block reads nothing of the object")
    after = max(first_assigned.values())
    site = [("after", norm(body[after]))] + site + [("before", norm(body[i + 1]).split("\n")[0] if i + 1 < len(body) else "(end of the constructor)")]
    return init, blk, params, site


def lean_str(s):
    return '"' + s.replace("\\", "\\\\").replace('"', '\\"') + '"'


def render(src_dir=None) -> str:
    init, blk, params, site = find_block(src_dir or SRC)
    b = Block(dict(params))
    lines = []
    b.block([blk], "  ", lines)
    sig = " ".join(f"({v} : {LEAN_TY[t]})" for v, t in params)
    parts = [HEADER.format(name="periodicgrid_init", source="src/grid/periodicgrid.py (PeriodicGrid.__init__: the warning block)")]
    parts.append("import GridVerif.Model.PeriodicInitPy\n\nset_option linter.unusedVariables false\n\n"
                 "namespace GridVerif.Gen.PeriodicGridInit\n"
                 "open GridVerif GridVerif.LocalGrid GridVerif.Periodic GridVerif.LocalGridPy GridVerif.PeriodicInitPy\n")
    parts.append("/-- Where the warning block sits in `PeriodicGrid.__init__` and which attribute of the object each of its\n"
                 "free variables holds (source order). -/\n"
                 "def PeriodicGrid_init_warning_site : List (String × String) :=\n  ["
                 + ",\n   ".join(f"({lean_str(a)}, {lean_str(c)})" for a, c in site) + "]\n")
    parts.append("section\nvariable {K : Type} [Add K] [Sub K] [Mul K] [Div K] [NatCast K] [LT K] [DecidableLT K] [LE K] [DecidableLE K]\n")
    parts.append(f"/-- The warning block of `PeriodicGrid.__init__` (src/grid/periodicgrid.py, line {blk.lineno}): what it raises, whether it\n"
                 "ends with a warning, the category and the stack level.  The parameters are the attributes named in\n"
                 "`PeriodicGrid_init_warning_site`. -/\n"
                 f"def PeriodicGrid_init_warning {sig} : WarnOutcome :=\n" + "\n".join(lines) + "\n")
    parts.append("end\n\nend GridVerif.Gen.PeriodicGridInit\n")
    return "\n".join(parts)


def generate():
    return write_if_changed("PeriodicGridInit.lean", render())


if __name__ == "__main__":
    print(render())

"""Translator for C05: grid/atomgrid.py + data/prune_grid/*.npz -> Gen/Presets.lean.

What is carried over (nothing else of atomgrid.py is translated; the rest of the model is
hand-written in Model/AtomGrid.lean and tied by correspondence):

* `AtomGrid.from_preset`: the `if / elif / else` chain that selects how the table of a
  preset is read.  Tests may be built from `preset in [...]`, `preset == "..."`,
  `atnum <cmp> N`, `and`, `or`, `not`; each branch body is classified as *shell-count form*
  (`[npt[idx] for idx in range(len(rad)) for _ in range(rad[idx])]` handed over as `sizes=`)
  or *sector form* (`_find_degrees_for_radial_points(rgrid.points, rad, degs)`), anything
  else is unsupported.  Result: `takesShellCountBranch : Preset -> Nat -> Bool`.
* `_get_rgrid_size`: the list of presets it accepts and the presets for which it reads the
  stored key `r_points` instead of `<Z>_rad`.
* the arithmetic of `_generate_atomic_grid`, `get_shell_grid`, the `points` property and
  `_find_degrees_for_radial_points`: index-table length and step, seed expression, the guard
  `rotate != 0`, point scaling, weight expression (with and without r^2), centre addition,
  the sector comparison -- as small Lean definitions (generic in the number type).
* every `prune_grid_<preset>.npz`: per (preset, Z) the lengths of `rad` and `npt`, whether
  `rad` has an integer dtype, its sum and values (integers as they are, floats as the exact
  dyadic rational `num / 2^k` of the stored double), the `npt` values, the scalar `<Z>_nshell`
  where stored; extra keys.
"""
import ast
import re

import numpy as np

from ..common import SRC
from .util import HEADER, write_if_changed


class Unsupported(Exception):
    pass


# ----------------------------------------------------------------------------
# source
# ----------------------------------------------------------------------------
def _tree():
    return ast.parse((SRC / "atomgrid.py").read_text())


def _method(tree, name):
    cls = next(n for n in tree.body if isinstance(n, ast.ClassDef) and n.name == "AtomGrid")
    fn = next((n for n in cls.body if isinstance(n, ast.FunctionDef) and n.name == name), None)
    if fn is None:
        raise Unsupported(f"atomgrid.AtomGrid.{name} not found")
    return fn


def _test_to_lean(t, names: set) -> str:
    """Boolean test over (preset, atnum) -> Lean Bool expression over (p : Preset) (atnum : Nat)."""
    if isinstance(t, ast.BoolOp):
        op = " && " if isinstance(t.op, ast.And) else " || "
        return "(" + op.join(_test_to_lean(v, names) for v in t.values) + ")"
    if isinstance(t, ast.UnaryOp) and isinstance(t.op, ast.Not):
        return "(!" + _test_to_lean(t.operand, names) + ")"
    if isinstance(t, ast.Compare) and len(t.ops) == 1:
        l, op, r = t.left, t.ops[0], t.comparators[0]
        if isinstance(l, ast.Name) and l.id == "preset":
            if isinstance(op, (ast.In, ast.NotIn)) and isinstance(r, (ast.List, ast.Tuple)) \
                    and all(isinstance(e, ast.Constant) and isinstance(e.value, str) for e in r.elts):
                vals = [e.value for e in r.elts]
                names.update(vals)
                s = "([" + ", ".join("Preset." + _ident(v) for v in vals) + "].contains p)"
                return s if isinstance(op, ast.In) else "(!" + s + ")"
            if isinstance(op, (ast.Eq, ast.NotEq)) and isinstance(r, ast.Constant) and isinstance(r.value, str):
                names.add(r.value)
                s = f"(p == Preset.{_ident(r.value)})"
                return s if isinstance(op, ast.Eq) else "(!" + s + ")"
        if isinstance(l, ast.Name) and l.id == "atnum" and isinstance(r, ast.Constant) \
                and isinstance(r.value, int) and not isinstance(r.value, bool) and r.value >= 0:
            sym = {ast.Gt: ">", ast.GtE: "≥", ast.Lt: "<", ast.LtE: "≤", ast.Eq: "=", ast.NotEq: "≠"}.get(type(op))
            if sym:
                return f"decide (atnum {sym} {r.value})"
    raise Unsupported(f"atomgrid.AtomGrid.from_preset: branch test not translatable: {ast.unparse(t)}")


SHELL_COUNT_COMP = "[npt[idx] for idx in range(len(rad)) for _ in range(rad[idx])]"


def _classify_body(body) -> bool:
    """True = shell-count form, False = sector form."""
    src = [ast.unparse(s) for s in body]
    ret = body[-1]
    if not isinstance(ret, ast.Return) or not isinstance(ret.value, ast.Call) or ast.unparse(ret.value.func) != "cls":
        raise Unsupported("atomgrid.AtomGrid.from_preset: branch does not end in `return cls(...)`: " + "; ".join(src)[:200])
    call = ret.value
    kw = {k.arg: ast.unparse(k.value) for k in call.keywords}
    pos = [ast.unparse(a) for a in call.args]
    common = kw.get("center") == "center" and kw.get("rotate") == "rotate" and kw.get("method") == "method" and pos[:1] == ["rgrid"]
    if len(body) == 2 and src[0] == f"sector_sizes = {SHELL_COUNT_COMP}" and pos == ["rgrid", "None"] \
            and kw.get("sizes") == "sector_sizes" and common and set(kw) == {"sizes", "center", "rotate", "method"}:
        return True
    if len(body) == 3 and src[0] == "degs = AngularGrid.convert_angular_sizes_to_degrees(npt, method=method)" \
            and src[1] == "rad_degs = AtomGrid._find_degrees_for_radial_points(rgrid.points, rad, degs)" \
            and pos == ["rgrid"] and kw.get("degrees") == "rad_degs" and common \
            and set(kw) == {"degrees", "center", "rotate", "method"}:
        return False
    raise Unsupported("atomgrid.AtomGrid.from_preset: branch body not recognised: " + "; ".join(src)[:300])


def from_preset_branches(tree, names: set):
    fn = _method(tree, "from_preset")
    src = ast.unparse(fn)
    for needed in ("rad = data[f'{atnum}_rad']", "npt = data[f'{atnum}_npt']",
                   "data = np.load(files('grid.data.prune_grid').joinpath(f'prune_grid_{preset}.npz'))"):
        if needed not in src:
            raise Unsupported(f"atomgrid.AtomGrid.from_preset: statement `{needed}` not found")
    chain = [s for s in fn.body if isinstance(s, ast.If) and "preset" in ast.unparse(s.test) and "rgrid" not in ast.unparse(s.test)]
    if len(chain) != 1 or chain[0] is not fn.body[-1]:
        raise Unsupported("atomgrid.AtomGrid.from_preset: the branch chain on `preset` is not the final statement")
    node, out = chain[0], []
    while True:
        out.append((_test_to_lean(node.test, names), ast.unparse(node.test), _classify_body(node.body)))
        if len(node.orelse) == 1 and isinstance(node.orelse[0], ast.If):
            node = node.orelse[0]
        else:
            if not node.orelse:
                raise Unsupported("atomgrid.AtomGrid.from_preset: chain without else")
            out.append((None, "else", _classify_body(node.orelse)))
            break
    return out


def rgrid_size_rule(tree, names: set):
    fn = next((n for n in tree.body if isinstance(n, ast.FunctionDef) and n.name == "_get_rgrid_size"), None)
    if fn is None:
        raise Unsupported("atomgrid._get_rgrid_size not found")
    top = [s for s in fn.body if isinstance(s, ast.If)]
    if len(top) != 1:
        raise Unsupported("atomgrid._get_rgrid_size: structure")
    t = top[0].test
    if not (isinstance(t, ast.Compare) and isinstance(t.ops[0], ast.NotIn) and ast.unparse(t.left) == "preset_grid"
            and isinstance(t.comparators[0], ast.List)):
        raise Unsupported("atomgrid._get_rgrid_size: accepted-preset test")
    accepted = [e.value for e in t.comparators[0].elts]
    names.update(accepted)
    loops = [n for n in ast.walk(fn) if isinstance(n, ast.For)]
    if len(loops) != 1:
        raise Unsupported("atomgrid._get_rgrid_size: loop")
    body = loops[0].body
    if not (len(body) == 2 and isinstance(body[0], ast.If) and ast.unparse(body[1]) == "radial_pts.append(sum(rad))"):
        raise Unsupported("atomgrid._get_rgrid_size: loop body")
    br = body[0]
    tt = br.test
    if not (isinstance(tt, ast.Compare) and isinstance(tt.ops[0], ast.Eq) and ast.unparse(tt.left) == "preset_grid"
            and isinstance(tt.comparators[0], ast.Constant)
            and [ast.unparse(s) for s in br.body] == ["rad = data['r_points']"]
            and [ast.unparse(s) for s in br.orelse] == ["rad = data[f'{at_num}_rad']"]):
        raise Unsupported("atomgrid._get_rgrid_size: r_points branch")
    names.add(tt.comparators[0].value)
    return accepted, [tt.comparators[0].value]


class Expr:
    """Tiny arithmetic translator: sub-expressions whose source text is in `env` become variables."""

    def __init__(self, env, nat: bool, where: str):
        self.env, self.nat, self.where = env, nat, where

    def tr(self, e) -> str:
        s = ast.unparse(e)
        if s in self.env:
            return self.env[s]
        if isinstance(e, ast.BinOp):
            if isinstance(e.op, ast.Pow):
                if isinstance(e.right, ast.Constant) and isinstance(e.right.value, int) and e.right.value >= 0 and not self.nat:
                    return f"npow {self.atom(e.left)} {e.right.value}"
                raise Unsupported(f"{self.where}: exponent in {s}")
            sym = {ast.Add: "+", ast.Sub: "-", ast.Mult: "*", ast.Div: "/"}.get(type(e.op))
            if sym is None or (self.nat and sym in "-/"):
                raise Unsupported(f"{self.where}: operator in {s}")
            # Python's left association is kept by parenthesising only the right operand when compound
            l = self.tr(e.left) if isinstance(e.left, ast.BinOp) and not isinstance(e.left.op, ast.Pow) and _prec(e.left.op) >= _prec(e.op) else self.atom(e.left)
            return f"{l} {sym} {self.atom(e.right)}"
        if isinstance(e, ast.Constant) and isinstance(e.value, int) and not isinstance(e.value, bool) and e.value >= 0:
            return str(e.value) if self.nat else f"(({e.value} : Nat) : K)"
        raise Unsupported(f"{self.where}: cannot translate `{s}`")

    def atom(self, e) -> str:
        t = self.tr(e)
        return t if re.fullmatch(r"[\wω]+", t) or t.startswith("((") else f"({t})"


def _flat(s: str) -> str:
    return re.sub(r"\s+", " ", s)


def _prec(op):
    return {ast.Add: 1, ast.Sub: 1, ast.Mult: 2, ast.Div: 2}.get(type(op), 0)


def _assign_value(fn, target: str, which=None, where=""):
    """The value expressions of the assignments to `target` inside fn, in source order."""
    vals = []
    for n in ast.walk(fn):
        if isinstance(n, ast.Assign) and len(n.targets) == 1 and ast.unparse(n.targets[0]) == target:
            vals.append((n.lineno, n.value))
    vals.sort(key=lambda p: p[0])
    return [v for _, v in vals]


def loop_arithmetic(tree):
    """-> dict of Lean definition bodies for the arithmetic of the assembly loop and its readers."""
    d = {}
    gen = _method(tree, "_generate_atomic_grid")
    W = "atomgrid.AtomGrid._generate_atomic_grid"
    loops = [n for n in gen.body if isinstance(n, ast.For)]
    if len(loops) != 1 or ast.unparse(loops[0].target) != "(i, deg_i)" or ast.unparse(loops[0].iter) != "enumerate(degrees)":
        raise Unsupported(f"{W}: the shell loop is not `for i, deg_i in enumerate(degrees)`")
    loop = loops[0]
    src_loop = [ast.unparse(s) for s in loop.body]
    # order of the statements that matter
    for needed in ("sphere_grid = AngularGrid(degree=deg_i, method=method)",
                   "points, weights = (sphere_grid.points.copy(), sphere_grid.weights.copy())",
                   "actual_degrees.append(sphere_grid.degree)", "all_points.append(points)", "all_weights.append(weights)"):
        if needed not in src_loop:
            raise Unsupported(f"{W}: statement `{needed}` not found in the loop")
    whole = _flat(ast.unparse(gen))
    for needed in ("points = np.vstack(all_points)", "weights = np.hstack(all_weights)",
                   "return (points, weights, indices, actual_degrees)",
                   "if len(degrees) != rgrid.size:\n        raise ValueError"):
        if _flat(needed) not in whole:
            raise Unsupported(f"{W}: statement `{needed.splitlines()[0]}` not found")
    # index table
    init = _assign_value(gen, "indices")
    if len(init) != 1 or not (isinstance(init[0], ast.Call) and ast.unparse(init[0].func) == "np.zeros"
                              and [ast.unparse(k.value) for k in init[0].keywords if k.arg == "dtype"] == ["int"]):
        raise Unsupported(f"{W}: `indices = np.zeros(<len>, dtype=int)` not found")
    d["indicesLen"] = Expr({"len(degrees)": "n"}, True, W).tr(init[0].args[0])
    step = _assign_value(loop, "indices[i + 1]")
    if len(step) != 1:
        raise Unsupported(f"{W}: the index table is not written as `indices[i + 1] = ...` exactly once per shell")
    d["indicesStep"] = Expr({"indices[i]": "prev", "len(points)": "n"}, True, W).tr(step[0])
    if "indices[" in d["indicesStep"]:
        raise Unsupported(f"{W}: index step reads another slot than indices[i]")
    # rotation
    ifs = [s for s in loop.body if isinstance(s, ast.If) and "rot_mt" in ast.unparse(s)]
    if len(ifs) != 1 or ifs[0].orelse:
        raise Unsupported(f"{W}: rotation block")
    d["rotates"] = _rot_guard(ifs[0].test, "rotate", W)
    d["shellSeed"] = _seed(ifs[0], {"rotate": "rotate", "i": "i"}, "points = points @ rot_mt", W)
    # scaling and weights: the assignments after the rotation block
    after = loop.body[loop.body.index(ifs[0]) + 1:]
    pv = [s.value for s in after if isinstance(s, ast.Assign) and ast.unparse(s.targets[0]) == "points"]
    wv = [s.value for s in after if isinstance(s, ast.Assign) and ast.unparse(s.targets[0]) == "weights"]
    if len(pv) != 1 or len(wv) != 1:
        raise Unsupported(f"{W}: points/weights assignments after the rotation block")
    d["scalePoint"] = Expr({"points": "u", "rgrid[i].points": "r"}, False, W).tr(pv[0])
    d["shellWeight"] = Expr({"weights": "ω", "rgrid[i].weights": "w", "rgrid[i].points": "r"}, False, W).tr(wv[0])
    pos_p = next(k for k, s in enumerate(after) if isinstance(s, ast.Assign) and ast.unparse(s.targets[0]) == "points")
    pos_i = next(k for k, s in enumerate(after) if isinstance(s, ast.Assign) and ast.unparse(s.targets[0]) == "indices[i + 1]")
    if not pos_p < pos_i:
        raise Unsupported(f"{W}: index step precedes the scaling statement")

    # get_shell_grid
    gs = _method(tree, "get_shell_grid")
    W = "atomgrid.AtomGrid.get_shell_grid"
    whole = _flat(ast.unparse(gs))
    for needed in ("if not 0 <= index < len(self.degrees):\n    raise ValueError", "degree = self.degrees[index]",
                   "sphere_grid = AngularGrid(degree=degree, method=self.method)", "pts = sphere_grid.points.copy()",
                   "wts = sphere_grid.weights.copy()", "sphere_grid.points = pts", "sphere_grid.weights = wts",
                   "return sphere_grid"):
        if _flat(needed) not in whole:
            raise Unsupported(f"{W}: statement `{needed.splitlines()[0]}` not found")
    ifs = [s for s in gs.body if isinstance(s, ast.If) and "rot_mt" in ast.unparse(s)]
    if len(ifs) != 1 or ifs[0].orelse:
        raise Unsupported(f"{W}: rotation block")
    d["shellGridRotates"] = _rot_guard(ifs[0].test, "self.rotate", W)
    d["shellGridSeed"] = _seed(ifs[0], {"self.rotate": "rotate", "index": "i"}, "pts = pts.dot(rot_mt)", W)
    after = gs.body[gs.body.index(ifs[0]) + 1:]
    pv = [s.value for s in after if isinstance(s, ast.Assign) and ast.unparse(s.targets[0]) == "pts"]
    wv = [s.value for s in after if isinstance(s, ast.Assign) and ast.unparse(s.targets[0]) == "wts"]
    rsq = [s for s in after if isinstance(s, ast.If)]
    if len(pv) != 1 or len(wv) != 1 or len(rsq) != 1 or ast.unparse(rsq[0].test) != "r_sq is True" or rsq[0].orelse \
            or len(rsq[0].body) != 1 or ast.unparse(rsq[0].body[0].targets[0]) != "wts":
        raise Unsupported(f"{W}: pts/wts/r_sq statements")
    d["shellGridScale"] = Expr({"pts": "u", "self.rgrid[index].points": "r"}, False, W).tr(pv[0])
    d["shellGridWeight"] = Expr({"wts": "ω", "self.rgrid[index].weights": "w"}, False, W).tr(wv[0])
    d["shellGridWeightRsq"] = Expr({"wts": "ωw", "self.rgrid[index].points": "r"}, False, W).tr(rsq[0].body[0].value)

    # points property
    cls = next(n for n in tree.body if isinstance(n, ast.ClassDef) and n.name == "AtomGrid")
    prop = [n for n in cls.body if isinstance(n, ast.FunctionDef) and n.name == "points"
            and any(ast.unparse(x) == "property" for x in n.decorator_list)]
    rets = [n for n in ast.walk(prop[0]) if isinstance(n, ast.Return)] if prop else []
    if len(rets) != 1:
        raise Unsupported("atomgrid.AtomGrid.points: property body")
    d["addCentre"] = Expr({"self._points": "p", "self._center": "c"}, False, "atomgrid.AtomGrid.points").tr(rets[0].value)
    for nm, attr in (("indices", "self._indices"), ("degrees", "self._degs"), ("rotate", "self._rot"), ("center", "self._center")):
        pr = [n for n in cls.body if isinstance(n, ast.FunctionDef) and n.name == nm]
        rr = [n for n in ast.walk(pr[0]) if isinstance(n, ast.Return)] if pr else []
        if len(rr) != 1 or ast.unparse(rr[0].value) != attr:
            raise Unsupported(f"atomgrid.AtomGrid.{nm}: property does not return {attr}")

    # sector lookup
    fd = _method(tree, "_find_degrees_for_radial_points")
    W = "atomgrid.AtomGrid._find_degrees_for_radial_points"
    body = [s for s in fd.body if not (isinstance(s, ast.Expr) and isinstance(s.value, ast.Constant))]
    if len(body) != 2 or ast.unparse(body[1]) != "return d_sectors[position]":
        raise Unsupported(f"{W}: body")
    v = body[0].value
    if not (isinstance(v, ast.Call) and ast.unparse(v.func) == "np.sum" and [ast.unparse(k.value) for k in v.keywords if k.arg == "axis"] == ["1"]
            and isinstance(v.args[0], ast.Compare) and len(v.args[0].ops) == 1
            and ast.unparse(v.args[0].left) == "radial_points[:, None]"
            and ast.unparse(v.args[0].comparators[0]) == "r_sectors[None, :]"):
        raise Unsupported(f"{W}: position expression")
    sym = {ast.Gt: ">", ast.GtE: "≥", ast.Lt: "<", ast.LtE: "≤"}.get(type(v.args[0].ops[0]))
    if sym is None:
        raise Unsupported(f"{W}: comparison")
    d["sectorBelow"] = f"decide (r {sym} b)"
    d["sectorCmp"] = sym

    # _generate_degree_from_radius: the radius multiplication and the length guard
    gd = _method(tree, "_generate_degree_from_radius")
    whole = _flat(ast.unparse(gd))
    for needed in ("r_sectors = np.array(r_sectors) * radius", "if len(d_sectors) - len(r_sectors) != 1:\n    raise ValueError",
                   "AngularGrid._get_degree_and_size(degree=d, size=None, method=method)[0] for d in d_sectors",
                   "rad_degs = AtomGrid._find_degrees_for_radial_points(rgrid.points, r_sectors, matched_deg)"):
        if _flat(needed) not in whole:
            raise Unsupported(f"atomgrid.AtomGrid._generate_degree_from_radius: statement `{needed.splitlines()[0]}` not found")
    return d


def _rot_guard(test, var, W):
    if not (isinstance(test, ast.Compare) and len(test.ops) == 1 and ast.unparse(test.left) == var
            and isinstance(test.comparators[0], ast.Constant) and isinstance(test.comparators[0].value, int)):
        raise Unsupported(f"{W}: rotation guard `{ast.unparse(test)}`")
    sym = {ast.NotEq: "≠", ast.Gt: ">", ast.Eq: "="}.get(type(test.ops[0]))
    if sym is None:
        raise Unsupported(f"{W}: rotation guard `{ast.unparse(test)}`")
    return f"decide (rotate {sym} {test.comparators[0].value})"


def _seed(ifnode, env, mul_stmt, W):
    src = [ast.unparse(s) for s in ifnode.body]
    if len(src) != 2 or src[1] != mul_stmt:
        raise Unsupported(f"{W}: rotation is not applied as `{mul_stmt}`")
    v = ifnode.body[0].value
    if not (ast.unparse(ifnode.body[0].targets[0]) == "rot_mt" and isinstance(v, ast.Call) and ast.unparse(v.func).endswith(".as_matrix")
            and isinstance(v.func.value, ast.Call) and ast.unparse(v.func.value.func) == "R.random"
            and len(v.func.value.keywords) == 1 and v.func.value.keywords[0].arg == "random_state" and not v.func.value.args):
        raise Unsupported(f"{W}: rotation matrix is not `R.random(random_state=...).as_matrix()`")
    return Expr(env, True, W).tr(v.func.value.keywords[0].value)


# ----------------------------------------------------------------------------
# data
# ----------------------------------------------------------------------------
def _ident(name: str) -> str:
    if not re.fullmatch(r"[A-Za-z_][A-Za-z0-9_]*", name):
        raise Unsupported(f"preset name {name!r} is not an identifier")
    return name


def _nat(x, what):
    if not isinstance(x, (int, np.integer)) or isinstance(x, (bool, np.bool_)) or x < 0:
        raise Unsupported(f"{what}: {x!r} is not a natural number")
    return int(x)


def _dyadic(x: float, what):
    """exact value of a finite non-negative double as (num, k) with x = num / 2^k."""
    x = float(x)
    if not (x == x) or x in (float("inf"), float("-inf")) or x < 0:
        raise Unsupported(f"{what}: {x!r} is not a finite non-negative number")
    num, den = x.as_integer_ratio()
    k = den.bit_length() - 1
    if den != 1 << k or num >= 1 << 53 and k > 0 or k > 1000:
        raise Unsupported(f"{what}: {x!r} has no short dyadic form")
    if num / den != x:
        raise Unsupported(f"{what}: dyadic round trip failed for {x!r}")
    return num, k


def data_tables():
    out = []
    for f in sorted((SRC / "data" / "prune_grid").glob("*.npz")):
        m = re.fullmatch(r"prune_grid_(\w+)\.npz", f.name)
        if not m:
            raise Unsupported(f"unexpected file {f.name} in data/prune_grid")
        preset = m.group(1)
        entries, extra = [], []
        with np.load(f) as z:
            keys = list(z.keys())
            zs = set()
            for k in keys:
                mm = re.fullmatch(r"(\d+)_(rad|npt|nshell)", k)
                if mm:
                    zs.add(int(mm.group(1)))
                else:
                    v = np.asarray(z[k])
                    if v.ndim != 1 or not np.issubdtype(v.dtype, np.integer):
                        raise Unsupported(f"{f.name}: extra key {k} is not an integer vector")
                    extra.append((k, [_nat(x, f"{f.name}:{k}") for x in v]))
            for at in sorted(zs):
                if f"{at}_rad" not in keys or f"{at}_npt" not in keys:
                    raise Unsupported(f"{f.name}: element {at} lacks one of its two arrays")
                rad, npt = np.asarray(z[f"{at}_rad"]), np.asarray(z[f"{at}_npt"])
                if rad.ndim != 1 or npt.ndim != 1 or not np.issubdtype(npt.dtype, np.integer):
                    raise Unsupported(f"{f.name}: element {at}: array shapes/dtypes")
                is_int = bool(np.issubdtype(rad.dtype, np.integer))
                what = f"{f.name}:{at}_rad"
                counts = [_nat(x, what) for x in rad] if is_int else []
                sectors = [(c, 0) for c in counts] if is_int else [_dyadic(x, what) for x in rad]
                nshell = None
                if f"{at}_nshell" in keys:
                    v = np.asarray(z[f"{at}_nshell"])
                    if v.ndim != 0 or not np.issubdtype(v.dtype, np.integer):
                        raise Unsupported(f"{f.name}: {at}_nshell is not an integer scalar")
                    nshell = _nat(v[()], f"{f.name}:{at}_nshell")
                entries.append(dict(atnum=at, len_rad=len(rad), len_npt=len(npt), is_int=is_int, nshell=nshell,
                                    rad_sum=sum(counts), counts=counts, sectors=sectors,
                                    npt=[_nat(x, f"{f.name}:{at}_npt") for x in npt]))
        out.append((preset, entries, extra))
    return out


# ----------------------------------------------------------------------------
# output
# ----------------------------------------------------------------------------
def _natlist(xs):
    return "[" + ", ".join(str(int(x)) for x in xs) + "]"


def generate():
    tree = _tree()
    names = set()
    branches = from_preset_branches(tree, names)
    accepted, rpoints_presets = rgrid_size_rule(tree, names)
    arith = loop_arithmetic(tree)
    data = data_tables()
    file_presets = [p for p, _, _ in data]
    all_presets = file_presets + sorted(n for n in names if n not in file_presets)
    for n in all_presets:
        _ident(n)

    P = [HEADER.format(name="presets", source="src/grid/atomgrid.py, src/grid/data/prune_grid/*.npz")]
    P.append("import GridVerif.Model.Elem\n\nnamespace GridVerif.Gen.Presets\n")
    P.append("/-- The preset names: one per data file `prune_grid_<name>.npz`, then every further name the source mentions. -/")
    P.append("inductive Preset where\n" + "\n".join(f"  | {n}" for n in all_presets) + "\n  deriving DecidableEq, Repr\n")
    P.append("def Preset.all : List Preset := [" + ", ".join("." + n for n in all_presets) + "]\n")
    P.append("/-- presets that have a data file -/")
    P.append("def Preset.withData : List Preset := [" + ", ".join("." + n for n in file_presets) + "]\n")
    P.append("def Preset.name : Preset → String\n" + "\n".join(f'  | .{n} => "{n}"' for n in all_presets) + "\n")
    P.append("def Preset.ofName? : String → Option Preset\n" + "\n".join(f'  | "{n}" => some .{n}' for n in all_presets) + "\n  | _ => none\n")

    P.append("/-- `AtomGrid.from_preset`: does the call read the table in *shell-count form* (`true`:")
    P.append("`sizes = [npt[idx] for idx in range(len(rad)) for _ in range(rad[idx])]`) or in *sector form*")
    P.append("(`false`: `degs[#{sector bounds below r}]`)?  Source chain: " + " / ".join(f"`{s}` → {'shell-count' if b else 'sector'}" for _, s, b in branches) + " -/")
    body = ""
    for lean, _, sc in branches:
        v = "true" if sc else "false"
        body += f"  if {lean} then {v} else\n" if lean is not None else f"  {v}\n"
    P.append("def takesShellCountBranch (p : Preset) (atnum : Nat) : Bool :=\n" + body)

    P.append("/-- `_get_rgrid_size`: the presets it accepts. -/")
    P.append("def rgridSizePresets : List Preset := [" + ", ".join("." + n for n in accepted) + "]\n")
    P.append("/-- `_get_rgrid_size`: presets for which the stored key `r_points` is summed instead of `<Z>_rad`. -/")
    P.append("def rgridSizeFromRPoints : List Preset := [" + ", ".join("." + n for n in rpoints_presets) + "]\n")

    P.append("/-! ### arithmetic of `_generate_atomic_grid`, `get_shell_grid`, `points`, `_find_degrees_for_radial_points` -/\n")
    P.append("/-- `indices = np.zeros(<this>, dtype=int)` with `n = len(degrees)` -/")
    P.append(f"def indicesLen (n : Nat) : Nat := {arith['indicesLen']}\n")
    P.append("/-- `indices[i + 1] = <this>` with `prev = indices[i]`, `n = len(points)` -/")
    P.append(f"def indicesStep (prev n : Nat) : Nat := {arith['indicesStep']}\n")
    P.append("/-- guard of the rotation block in `_generate_atomic_grid` -/")
    P.append(f"def rotates (rotate : Nat) : Bool := {arith['rotates']}\n")
    P.append("/-- `R.random(random_state=<this>)` for shell `i` in `_generate_atomic_grid`; applied as `points @ rot_mt` -/")
    P.append(f"def shellSeed (rotate i : Nat) : Nat := {arith['shellSeed']}\n")
    P.append("/-- guard of the rotation block in `get_shell_grid` -/")
    P.append(f"def shellGridRotates (rotate : Nat) : Bool := {arith['shellGridRotates']}\n")
    P.append("/-- `R.random(random_state=<this>)` in `get_shell_grid(index = i)`; applied as `pts.dot(rot_mt)` -/")
    P.append(f"def shellGridSeed (rotate i : Nat) : Nat := {arith['shellGridSeed']}\n")
    P.append("section\nvariable {K : Type} [Add K] [Sub K] [Mul K] [Div K] [NatCast K]\n")
    P.append("/-- `points = <this>` (per coordinate) with `u` the (rotated) unit point, `r = rgrid[i].points` -/")
    P.append(f"def scalePoint (u r : K) : K := {arith['scalePoint']}\n")
    P.append("/-- `weights = <this>` with `ω` the angular weight, `w = rgrid[i].weights`, `r = rgrid[i].points` -/")
    P.append(f"def shellWeight (ω w r : K) : K := {arith['shellWeight']}\n")
    P.append("/-- `get_shell_grid`: `pts = <this>` (per coordinate) -/")
    P.append(f"def shellGridScale (u r : K) : K := {arith['shellGridScale']}\n")
    P.append("/-- `get_shell_grid`: `wts = <this>` -/")
    P.append(f"def shellGridWeight (ω w : K) : K := {arith['shellGridWeight']}\n")
    P.append("/-- `get_shell_grid`, `if r_sq is True: wts = <this>` -/")
    P.append(f"def shellGridWeightRsq (ωw r : K) : K := {arith['shellGridWeightRsq']}\n")
    P.append("/-- the `points` property: `<this>` (per coordinate) with `p` a stored point, `c` the centre -/")
    P.append(f"def addCentre (p c : K) : K := {arith['addCentre']}\n")
    P.append("end\n")
    P.append(f"/-- `_find_degrees_for_radial_points`: `position = Σ_b [r {arith['sectorCmp']} b]` -/")
    P.append(f"def sectorBelow {{K : Type}} [LT K] [LE K] [DecidableLT K] [DecidableLE K] (r b : K) : Bool := {arith['sectorBelow']}\n")

    P.append("/-! ### the shipped tables -/\n")
    P.append("/-- One `(preset, element)` pair of a data file.  `radSectors`: the entries of `rad` as exact")
    P.append("dyadic rationals `(num, k)` = `num / 2^k` (integers have `k = 0`); `radCounts`: the entries of")
    P.append("`rad` when its dtype is integer (else `[]`), `radSum` their sum; `nshell`: the stored scalar")
    P.append("`<Z>_nshell` where the file has one (not read by `from_preset`). -/")
    P.append("structure Entry where\n  preset : Preset\n  atnum : Nat\n  lenRad : Nat\n  lenNpt : Nat\n  radIsInt : Bool\n"
             "  radSum : Nat\n  radCounts : List Nat\n  radSectors : List (Nat × Nat)\n  npt : List Nat\n  nshell : Option Nat\n  deriving DecidableEq, Repr\n")
    tb = lambda b: "true" if b else "false"
    for preset, entries, extra in data:
        P.append(f"/-- `prune_grid_{preset}.npz`: {len(entries)} elements -/")
        rows = []
        for e in entries:
            sect = "[" + ", ".join(f"({a}, {k})" for a, k in e["sectors"]) + "]"
            rows.append(f"  ⟨.{preset}, {e['atnum']}, {e['len_rad']}, {e['len_npt']}, {tb(e['is_int'])}, {e['rad_sum']}, "
                        f"{_natlist(e['counts'])},\n    {sect},\n    {_natlist(e['npt'])}, {'none' if e['nshell'] is None else 'some ' + str(e['nshell'])}⟩")
        chunks = [rows[i:i + 8] for i in range(0, len(rows), 8)] or [[]]
        for ci, ch in enumerate(chunks):
            P.append(f"def table_{preset}_{ci} : List Entry := [\n" + ",\n".join(ch) + "]\n")
        P.append(f"def table_{preset} : List Entry :=\n  " + " ++ ".join(f"table_{preset}_{ci}" for ci in range(len(chunks))) + "\n")
    P.append("/-- every `(preset, element)` pair that is shipped -/")
    P.append("def entries : List Entry :=\n  " + " ++ ".join(f"table_{p}" for p in file_presets) + "\n")
    P.append("/-- keys of the data files other than `<Z>_rad`, `<Z>_npt` -/")
    ex = [f'(.{p}, "{k}", {_natlist(v)})' for p, _, extra in data for k, v in extra]
    P.append("def extraKeys : List (Preset × String × List Nat) := [" + ", ".join(ex) + "]\n")
    P.append("/-- the stored key `r_points` (read by `_get_rgrid_size`) -/")
    rp = [f"(.{p}, {_natlist(v)})" for p, _, extra in data for k, v in extra if k == "r_points"]
    P.append("def rPoints : List (Preset × List Nat) := [" + ", ".join(rp) + "]\n")
    P.append("end GridVerif.Gen.Presets\n")
    return write_if_changed("Presets.lean", "\n".join(P))

"""Translator for property C04: body of `BaseTransform.transform_1d_grid` (rtransform.py)
-> lean/GridVerif/Gen/Transform1D.lean.

What is carried over (and nothing else is accepted — an unknown statement raises, which the
check treats like a broken proof obligation):

* the argument check `if not isinstance(oned_grid, OneDGrid): raise TypeError`;
* the domain guard `if <comparisons of oned_grid.domain[i] with self.domain[j]>: raise ValueError`
  -> `domainMismatch` (a `Prop` with a `Decidable` instance);
* `new_points = <element-wise expression>`  -> `newPoint tf x w`;
* `new_weights = <element-wise expression>` -> `newWeight tf x w`
  (`self.<method>(…)`, `oned_grid.points`, `oned_grid.weights`, `np.abs`, `+ - * /`, unary minus,
  integer literals, `** <int literal>`, earlier local names);
* `new_domain = oned_grid.domain; if new_domain is not None: new_domain = tuple(np.sort(E))`
  with `E` element-wise over `np.array(oned_grid.domain)` -> `domainImage tf d` and `newDomain`
  (sorted through `sort2`, or the plain pair when there is no `np.sort`);
* `return OneDGrid(a, b, c)` -> `assemble` (which local goes to which constructor argument).
"""
import ast

from ..common import SRC
from .util import HEADER, write_if_changed

METHODS = {"transform", "inverse", "deriv", "deriv2", "deriv3"}


class TranslateError(Exception):
    pass


def _src(node):
    return ast.unparse(node)


def _is_attr(node, obj, attr):
    return (isinstance(node, ast.Attribute) and isinstance(node.value, ast.Name)
            and node.value.id == obj and node.attr == attr)


def _np_call(node, name):
    return (isinstance(node, ast.Call) and isinstance(node.func, ast.Attribute)
            and isinstance(node.func.value, ast.Name) and node.func.value.id in ("np", "numpy")
            and node.func.attr == name and len(node.args) == 1 and not node.keywords)


class Expr:
    """Element-wise expression -> Lean text. `elem` maps the array-valued leaves to Lean variables."""

    def __init__(self, leaves, env):
        self.leaves = leaves      # list of (predicate, lean variable)
        self.env = env            # local name -> lean text

    def tr(self, n):
        for pred, var in self.leaves:
            if pred(n):
                return var
        if isinstance(n, ast.Name) and n.id in self.env:
            return f"({self.env[n.id]})"
        if isinstance(n, ast.Constant) and isinstance(n.value, int) and not isinstance(n.value, bool) and n.value >= 0:
            return f"(({n.value} : Nat) : K)"
        if isinstance(n, ast.UnaryOp) and isinstance(n.op, ast.USub):
            return f"(-{self.tr(n.operand)})"
        if isinstance(n, ast.BinOp):
            if isinstance(n.op, ast.Pow):
                if isinstance(n.right, ast.Constant) and isinstance(n.right.value, int) and n.right.value >= 0:
                    return f"npow {self.tr(n.left)} {n.right.value}"
                raise TranslateError(f"exponent not an integer literal: {_src(n)}")
            ops = {ast.Add: "+", ast.Sub: "-", ast.Mult: "*", ast.Div: "/"}
            if type(n.op) in ops:
                return f"({self.tr(n.left)} {ops[type(n.op)]} {self.tr(n.right)})"
            raise TranslateError(f"operator not supported: {_src(n)}")
        if _np_call(n, "abs") or _np_call(n, "absolute") or _np_call(n, "fabs"):
            return f"(Elem.abs {self.tr(n.args[0])})"
        if (isinstance(n, ast.Call) and isinstance(n.func, ast.Name) and n.func.id == "abs"
                and len(n.args) == 1 and not n.keywords):
            return f"(Elem.abs {self.tr(n.args[0])})"
        if (isinstance(n, ast.Call) and isinstance(n.func, ast.Attribute) and isinstance(n.func.value, ast.Name)
                and n.func.value.id == "self" and n.func.attr in METHODS and len(n.args) == 1 and not n.keywords):
            return f"(tf.{n.func.attr} {self.tr(n.args[0])})"
        raise TranslateError(f"expression not supported: {_src(n)}")


def _strip_outer(s):
    if s.startswith("(") and s.endswith(")"):
        depth = 0
        for i, c in enumerate(s):
            depth += c == "("
            depth -= c == ")"
            if depth == 0 and i < len(s) - 1:
                return s
        return s[1:-1]
    return s


def _domain_index(node, obj):
    """`obj.domain[i]` -> i"""
    if (isinstance(node, ast.Subscript) and _is_attr(node.value, obj, "domain")
            and isinstance(node.slice, ast.Constant) and node.slice.value in (0, 1)):
        return node.slice.value
    return None


def _guard(node):
    """Boolean test over comparisons `oned_grid.domain[i] OP self.domain[j]` -> Lean Prop text."""
    if isinstance(node, ast.BoolOp):
        op = " ∨ " if isinstance(node.op, ast.Or) else " ∧ "
        return "(" + op.join(_guard(v) for v in node.values) + ")"
    if isinstance(node, ast.UnaryOp) and isinstance(node.op, ast.Not):
        return f"(¬ {_guard(node.operand)})"
    if isinstance(node, ast.Compare) and len(node.ops) == 1:
        left, right, op = node.left, node.comparators[0], node.ops[0]
        names = {ast.Lt: "lt", ast.LtE: "le", ast.Gt: "gt", ast.GtE: "ge"}
        flip = {"lt": "gt", "le": "ge", "gt": "lt", "ge": "le"}
        if type(op) not in names:
            raise TranslateError(f"comparison not supported: {_src(node)}")
        o = names[type(op)]
        gi, sj = _domain_index(left, "oned_grid"), _domain_index(right, "self")
        if gi is None or sj is None:
            gi, sj = _domain_index(right, "oned_grid"), _domain_index(left, "self")
            o = flip[o]
        if gi is None or sj is None:
            raise TranslateError(f"guard comparison not of the form grid.domain[i] OP self.domain[j]: {_src(node)}")
        g = "glo" if gi == 0 else "ghi"
        end, fld = ("Lo", "tf.domLo") if sj == 0 else ("Hi", "tf.domHi")
        return f"({o}{end} {g} {fld})"
    raise TranslateError(f"guard not supported: {_src(node)}")


def _raises(body, exc):
    return (len(body) == 1 and isinstance(body[0], ast.Raise) and isinstance(body[0].exc, ast.Call)
            and isinstance(body[0].exc.func, ast.Name) and body[0].exc.func.id == exc)


def _domain_expr(node, env):
    """-> (sorted?, lean text of the element-wise image of `np.array(oned_grid.domain)`)"""
    is_sorted = False
    while True:
        if isinstance(node, ast.Call) and isinstance(node.func, ast.Name) and node.func.id == "tuple" and len(node.args) == 1:
            node = node.args[0]
        elif _np_call(node, "sort"):
            is_sorted = True
            node = node.args[0]
        elif isinstance(node, ast.Call) and isinstance(node.func, ast.Name) and node.func.id == "sorted" and len(node.args) == 1 and not node.keywords:
            is_sorted = True
            node = node.args[0]
        else:
            break
    leaves = [
        (lambda n: (_np_call(n, "array") or _np_call(n, "asarray")) and _is_attr(n.args[0], "oned_grid", "domain"), "d"),
    ]
    return is_sorted, _strip_outer(Expr(leaves, {}).tr(node))


def extract():
    """Parse the source -> dict of the translated pieces (also used by the harness)."""
    tree = ast.parse((SRC / "rtransform.py").read_text())
    base = next(n for n in tree.body if isinstance(n, ast.ClassDef) and n.name == "BaseTransform")
    fn = next(n for n in base.body if isinstance(n, ast.FunctionDef) and n.name == "transform_1d_grid")
    if [a.arg for a in fn.args.args] != ["self", "oned_grid"]:
        raise TranslateError("signature of transform_1d_grid changed")
    # subclasses overriding the method would bypass the translated text
    over = [c.name for c in tree.body if isinstance(c, ast.ClassDef) and c.name != "BaseTransform"
            and any(isinstance(n, ast.FunctionDef) and n.name == "transform_1d_grid" for n in c.body)]
    if over:
        raise TranslateError(f"transform_1d_grid overridden in {over}")
    leaves = [
        (lambda n: _is_attr(n, "oned_grid", "points"), "x"),
        (lambda n: _is_attr(n, "oned_grid", "weights"), "w"),
    ]
    out = {"type_check": None, "guard": None, "guard_src": None, "locals": {}, "src": {}, "domain_from_grid": None,
           "domain_none_kept": False, "domain_sorted": None, "domain_image": None, "ret": None}
    env = {}
    body = list(fn.body)
    if body and isinstance(body[0], ast.Expr) and isinstance(body[0].value, ast.Constant):
        body = body[1:]
    for st in body:
        if isinstance(st, ast.If) and not st.orelse and _raises(st.body, "TypeError"):
            t = st.test
            ok = (isinstance(t, ast.UnaryOp) and isinstance(t.op, ast.Not) and isinstance(t.operand, ast.Call)
                  and isinstance(t.operand.func, ast.Name) and t.operand.func.id == "isinstance"
                  and _src(t.operand.args[0]) == "oned_grid" and _src(t.operand.args[1]) == "OneDGrid")
            if not ok:
                raise TranslateError(f"argument check not supported: {_src(t)}")
            out["type_check"] = _src(t)
        elif isinstance(st, ast.If) and not st.orelse and _raises(st.body, "ValueError"):
            if out["guard"] is not None:
                raise TranslateError("second ValueError guard")
            out["guard"] = _strip_outer(_guard(st.test))
            out["guard_src"] = _src(st.test)
        elif isinstance(st, ast.Assign) and len(st.targets) == 1 and isinstance(st.targets[0], ast.Name):
            name = st.targets[0].id
            if _is_attr(st.value, "oned_grid", "domain"):
                out["domain_from_grid"] = name
                continue
            env[name] = _strip_outer(Expr(leaves, env).tr(st.value))
            out["locals"][name] = env[name]
            out["src"][name] = _src(st)
        elif (isinstance(st, ast.If) and not st.orelse and isinstance(st.test, ast.Compare)
              and isinstance(st.test.left, ast.Name) and st.test.left.id == out["domain_from_grid"]
              and len(st.test.ops) == 1 and isinstance(st.test.ops[0], ast.IsNot)
              and isinstance(st.test.comparators[0], ast.Constant) and st.test.comparators[0].value is None
              and len(st.body) == 1 and isinstance(st.body[0], ast.Assign)
              and _src(st.body[0].targets[0]) == out["domain_from_grid"]):
            out["domain_none_kept"] = True
            out["domain_sorted"], out["domain_image"] = _domain_expr(st.body[0].value, env)
            out["src"]["new_domain"] = _src(st.body[0])
        elif isinstance(st, ast.Return):
            c = st.value
            if not (isinstance(c, ast.Call) and isinstance(c.func, ast.Name) and c.func.id == "OneDGrid"):
                raise TranslateError(f"return not a OneDGrid construction: {_src(st)}")
            args = {}
            for pos, a in zip(("points", "weights", "domain"), c.args):
                args[pos] = a
            for kw in c.keywords:
                args[kw.arg] = kw.value
            if set(args) != {"points", "weights", "domain"} or not all(isinstance(a, ast.Name) for a in args.values()):
                raise TranslateError(f"return not of the form OneDGrid(<name>, <name>, <name>): {_src(st)}")
            out["ret"] = {k: v.id for k, v in args.items()}
            out["src"]["return"] = _src(st)
        else:
            raise TranslateError(f"statement not supported: {_src(st)[:200]}")
    for k in ("guard", "domain_from_grid", "domain_image", "ret"):
        if out[k] is None:
            raise TranslateError(f"transform_1d_grid: no {k} found")
    for k in ("points", "weights"):
        if out["ret"][k] not in out["locals"]:
            raise TranslateError(f"constructor argument {k} is not an element-wise local: {out['ret'][k]}")
    if out["ret"]["domain"] != out["domain_from_grid"]:
        raise TranslateError(f"constructor argument domain is {out['ret']['domain']}")
    return out


def lean_text():
    e = extract()
    L = [HEADER.format(name="transform1d", source="src/grid/rtransform.py (BaseTransform.transform_1d_grid)")]
    L.append("import GridVerif.Model.Transform1DBase\n")
    L.append("set_option linter.unusedVariables false\n")
    L.append("namespace GridVerif.Gen.Transform1D")
    L.append("open GridVerif GridVerif.Transform1D\n")
    L.append("variable {K : Type} [Add K] [Sub K] [Mul K] [Div K] [Neg K] [NatCast K] [Elem K] [LT K] [LE K]\n")
    L.append(f"/-- The argument check raising `TypeError`: `{e['type_check']}` (present in the source). -/")
    L.append(f"def hasTypeCheck : Bool := {'true' if e['type_check'] else 'false'}\n")
    L.append("/-- The domain guard raises `ValueError`:\n  `if " + e["guard_src"] + "` -/")
    L.append("def domainMismatch (tf : Tf K) (glo ghi : K) : Prop :=\n  " + e["guard"] + "\n")
    L.append("instance [DecidableLT K] [DecidableLE K] (tf : Tf K) (glo ghi : K) : Decidable (domainMismatch tf glo ghi) := by\n"
             "  unfold domainMismatch; exact inferInstance\n")
    for name, text in e["locals"].items():
        camel = "".join(p.capitalize() for p in name.split("_"))
        L.append(f"/-- `{e['src'][name]}`, one element (`x` = the point, `w` = its weight). -/")
        L.append(f"def local{camel} (tf : Tf K) (x w : K) : K :=\n  {text}\n")
    for role, fn in (("points", "newPoint"), ("weights", "newWeight")):
        name = e["ret"][role]
        L.append(f"/-- The `{role}` argument of the returned grid is `{name}`: `{e['src'][name]}`. -/")
        L.append(f"def {fn} (tf : Tf K) (x w : K) : K :=\n  {e['locals'][name]}\n")
    L.append(f"/-- `if new_domain is not None:` present: a grid without domain keeps `None`. -/")
    L.append(f"def domainNoneKept : Bool := {'true' if e['domain_none_kept'] else 'false'}\n")
    L.append(f"/-- One element of the image of `np.array(oned_grid.domain)` in `{e['src']['new_domain']}`. -/")
    L.append(f"def domainImage (tf : Tf K) (d : K) : K :=\n  {e['domain_image']}\n")
    if e["domain_sorted"]:
        L.append("/-- The new domain: the image of the two ends, **sorted** (`np.sort`). -/")
        L.append("def newDomain [DecidableLT K] [DecidableLE K] (tf : Tf K) (lo hi : K) : K × K :=\n"
                 "  sort2 (domainImage tf lo) (domainImage tf hi)\n")
    else:
        L.append("/-- The new domain: the image of the two ends, in the order of the old ends (no sort in the source). -/")
        L.append("def newDomain [DecidableLT K] [DecidableLE K] (tf : Tf K) (lo hi : K) : K × K :=\n"
                 "  (domainImage tf lo, domainImage tf hi)\n")
    L.append(f"/-- `{e['src']['return']}` -/")
    L.append("def returnsNewGrid : Bool := true\n")
    L.append("end GridVerif.Gen.Transform1D")
    return "\n".join(L) + "\n"


def generate():
    return write_if_changed("Transform1D.lean", lean_text())


if __name__ == "__main__":
    print(generate())

"""Print the as-built inventory (per property: level, theorems, translators, last measured coverage)."""
import importlib, json, os, sys
sys.path.insert(0, os.path.join(os.path.dirname(__file__), ".."))
print("| id | level | theorems (audited) | regenerated from source (translators) | last quick run: evaluations / distinct non-trivial |")
print("|---|---|---|---|---|")
for i in range(1, 21):
    pid = f"C{i:02d}"
    m = importlib.import_module(f"harness.props.{pid.lower()}")
    ev = {}
    try:
        ev = json.load(open(os.path.join(os.path.dirname(__file__), "..", "evidence", f"{pid}.json")))
    except Exception:
        pass
    cov = ev.get("coverage", {})
    print(f"| {pid} | {m.LEVEL} | {len(getattr(m, 'THEOREMS', []))} | {', '.join(getattr(m, 'GEN', [])) or '—'} | {cov.get('evaluations', '?')} / {cov.get('distinct_nontrivial', '?')} |")

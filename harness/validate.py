"""python3-vt -m ... : validate MANIFEST.json and evidence/*.json against the schemas."""
import json, sys, glob
import jsonschema
ok = True
jsonschema.validate(json.load(open('MANIFEST.json')), json.load(open('/root/.vp/MANIFEST.schema.json')))
es = json.load(open('/root/.vp/EVIDENCE.schema.json'))
for f in sorted(glob.glob('evidence/*.json')):
    try:
        jsonschema.validate(json.load(open(f)), es)
    except Exception as e:
        ok = False
        print('INVALID', f, str(e)[:300])
print('valid' if ok else 'invalid')
sys.exit(0 if ok else 1)
